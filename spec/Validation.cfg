CONSTANTS MaxLen = 5
MaxVal = 3
MaxPatience = 3
EmitScenarios = FALSE
SPECIFICATION Spec
INVARIANT ImprovementIffStrictMinimum
INVARIANT StopIffPatienceExhausted
INVARIANT NeverStopsWhenDisabled
INVARIANT BestIsMinimum
INVARIANT OneDrawPerInvocation
INVARIANT Emit
