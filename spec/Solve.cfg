CONSTANTS MaxN = 4
MaxCE = 2
MaxPatience = 1
MaxVal = 2
WithFaults = TRUE
WithScript = TRUE
WithBuiltin = TRUE
EmitScenarios = FALSE
SPECIFICATION Spec
INVARIANT RunsExactlyN
INVARIANT HistoryIsReferenceLoop
INVARIANT HistoryLengths
INVARIANT StopsAfterFault
INVARIANT ReturnedParamsFinite
INVARIANT CalledOnSchedule
INVARIANT CriterionCarriedForward
PROPERTY StopRightAfterRequest
INVARIANT StopEndsRun
INVARIANT BestIsLastImprovement
INVARIANT BuiltinNeverStopsWhenDisabled
INVARIANT BuiltinStopNeedsPatience
PROPERTY Terminates
INVARIANT Emit
