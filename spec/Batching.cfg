CONSTANTS MaxN = 5
Rule = "ge"
MaxDraws = 9
WithMask = TRUE
SPECIFICATION Spec
INVARIANT TypeOK
INVARIANT StoreIsPermutation
INVARIANT BatchFromStore
INVARIANT BatchInsideWindow
INVARIANT ActiveStayActive
PROPERTY NoRepeatWhenDivides
PROPERTY CoverBeforeReshuffle
PROPERTY PromptReshuffle
PROPERTY MonitorAgrees
