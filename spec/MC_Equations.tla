----------------------------- MODULE MC_Equations -----------------------------
(* Structural configuration space of C02: equation x Tmax x parameter ROLE under test (each parameter in
   turn is the only non-trivial one, or all together) x key layout of the multi-network equations. *)
EXTENDS Naturals, Sequences, FiniteSets, TLC, Json
VARIABLES cfg
Roles(e) == CASE e = "burgers" -> {"nu", "all"}
              [] e = "fisher" -> {"D", "r", "g", "all"}
              [] e = "ou" -> {"alpha1", "alpha2", "mu1", "mu2", "sigma1", "sigma2", "all"}
              [] e = "masscons" -> {"all"}
              [] e = "ns" -> {"rho", "nu", "all"}
              [] e = "glv" -> {"growth", "carry", "inter1", "inter2", "inter3", "all"}
Layouts(e) == CASE e = "ns" -> {"u_first", "p_first"}
                [] e = "glv" -> {"flat_main1", "flat_main2", "nested_main1", "nested_main3"}
                [] e = "masscons" -> {"single", "second"}
                [] e = "burgers" -> {"std", "sliced"}      \* sliced: the solution is the SECOND output of a two-output network (slice_solution)
                [] OTHER -> {"std"}
Dims(e) == IF e = "fisher" THEN {1, 2} ELSE {0}
Space == UNION {[kind : {"eq_struct"}, eq : {e}, Tmax : {1, 2, 4}, role : Roles(e), layout : Layouts(e), dim : Dims(e), rep : 1..2]
                : e \in {"burgers", "fisher", "ou", "masscons", "ns", "glv"}}
Init == cfg \in Space
Next == UNCHANGED cfg
Spec == Init /\ [][Next]_cfg
Emit == PrintT(ToJson(cfg))
=============================================================================
