------------------------------- MODULE Prelude -------------------------------
(* Exact arithmetic helpers for the functional modules: sums / products over sequences,
   integer powers, normalised rationals <<num, den>> (den > 0).  TLC's integers are 32-bit and
   TLC reports an overflow instead of wrapping, so an out-of-range configuration can never
   silently corrupt an expected value. *)
EXTENDS Integers, Sequences, FiniteSets, SequencesExt, Functions

SumSeq(s) == FoldLeft(LAMBDA a, b : a + b, 0, s)
ProdSeq(s) == FoldLeft(LAMBDA a, b : a * b, 1, s)
RECURSIVE Pow(_, _)
Pow(b, n) == IF n = 0 THEN 1 ELSE b * Pow(b, n - 1)
Abs(a) == IF a < 0 THEN -a ELSE a
RECURSIVE GCD(_, _)
GCD(a, b) == IF b = 0 THEN Abs(a) ELSE GCD(b, a % b)

(* ---- rationals ---- *)
QN(n, d) == LET sg == IF d < 0 THEN -1 ELSE 1
                g == GCD(Abs(n), Abs(d)) IN
            IF n = 0 THEN <<0, 1>> ELSE <<(sg * n) \div g, (sg * d) \div g>>
QI(n) == <<n, 1>>
QAdd(a, b) == QN(a[1] * b[2] + b[1] * a[2], a[2] * b[2])
QSub(a, b) == QN(a[1] * b[2] - b[1] * a[2], a[2] * b[2])
QMul(a, b) == QN(a[1] * b[1], a[2] * b[2])
QDiv(a, b) == QN(a[1] * b[2], a[2] * b[1])
QNeg(a) == <<-a[1], a[2]>>
QSq(a) == QMul(a, a)
QSum(s) == FoldLeft(QAdd, QI(0), s)
QMean(s) == QDiv(QSum(s), QI(Len(s)))
QOfRec(r) == QN(r.n, r.d)                 \* JSON {"n":..,"d":..}
QSeq(s) == [k \in DOMAIN s |-> QOfRec(s[k])]
FirstBad(seq) == LET bad == SelectSeq(seq, LAMBDA v : v # "ok") IN IF bad = <<>> THEN "ok" ELSE Head(bad)
=============================================================================
