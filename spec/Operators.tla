------------------------------ MODULE Operators ------------------------------
(* The differential operators of jinns/loss/_operators.py as mathematical definitions on exact
   polynomial fields.  X is the sequence of indices of the SPATIAL variables (a time variable,
   when present, is variable 1 and is never differentiated). *)
EXTENDS Poly

Lap(u, X) == FoldLeft(LAMBDA acc, i : Add(acc, D(D(u, i), i)), <<>>, X)
LapAt(u, X, pt) == Eval(Lap(u, X), pt)
DivAt(v, X, pt) == SumSeq([k \in 1..Len(X) |-> Eval(D(v[k], X[k]), pt)])
VecLapAt(v, X, pt) == [j \in 1..Len(v) |-> LapAt(v[j], X, pt)]
(* ((v . grad) v)_k = sum_i v_i d v_k / d x_i *)
AdvAt(v, X, pt) == [k \in 1..Len(v) |-> SumSeq([i \in 1..Len(X) |-> Eval(v[i], pt) * Eval(D(v[k], X[i]), pt)])]
GradAt(u, X, pt) == [k \in 1..Len(X) |-> Eval(D(u, X[k]), pt)]
=============================================================================
