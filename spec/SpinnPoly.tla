------------------------------ MODULE SpinnPoly ------------------------------
(* A separable network with polynomial feature maps IS a polynomial: u_m(x) = sum_k prod_d f_d[(m-1)R + k](x_d).
   This module expands it (exact polynomial product) so that the forward-mode grid computations of jinns on
   the SPINN and the reverse-mode pointwise computations on the expanded polynomial PINN can both be compared
   with ONE value computed by the specification (C11).
     r.coef[d][j]   coefficients (ascending powers) of the j-th feature of dimension d
     r.d, r.R, r.M  dimensions, embedding size, outputs ; r.xs[d] batch column d ; grid axis order = dimension order
                    (time first for non-stationary networks) *)
EXTENDS Operators
Uni(c, v, nv) == [p \in 1..Len(c) |-> [c |-> c[p], e |-> [i \in 1..nv |-> IF i = v THEN p - 1 ELSE 0]]]
ProdPoly(ps) == FoldLeft(Mul, Head(ps), Tail(ps))
SpinnOut(r, m) == FoldLeft(Add, <<>>, [k \in 1..r.R |-> ProdPoly([d \in 1..r.d |-> Uni(r.coef[d][(m - 1) * r.R + k], d, r.d)])])
Fields(r) == [m \in 1..r.M |-> SpinnOut(r, m)]
PointOf(r, idx) == [d \in 1..r.d |-> r.xs[d][idx[d]]]
=============================================================================
