------------------------------- MODULE MC_Masks -------------------------------
(* C06: the space of derivative specifications of a single loss, enumerated exhaustively:
   every assignment of {selected, not selected} to every (loss term, parameter group) pair.
   ODE: 3 terms (dyn, initial condition, observations); stationary: 4 (dyn, normalisation,
   boundary, observations); non-stationary: 5.  Groups: network parameters, equation
   parameters k1, k2.  2^9 = 512, 2^12 = 4096, 2^15 = 32768 masks. *)
EXTENDS Naturals, Sequences, FiniteSets, TLC, Json
CONSTANTS LKind, Stride
VARIABLES mask
NTerms == CASE LKind = "ode" -> 3 [] LKind = "statio" -> 4 [] LKind = "nonstatio" -> 5
            [] LKind = "sysode" -> 4        \* (ua, ub) x (initial condition, observations)
            [] LKind = "syspde" -> 6        \* (ua, ub) x (initial condition, boundary, observations)
Groups == 1..3
Masks == [1..NTerms -> [Groups -> BOOLEAN]]
(* a covering selection for the quick tier: masks whose binary code is on the stride *)
RECURSIVE Pow2(_)
Pow2(k) == IF k = 0 THEN 1 ELSE 2 * Pow2(k - 1)
RECURSIVE Code(_, _)
Code(m, k) == IF k = 0 THEN 0
              ELSE LET t == ((k - 1) \div 3) + 1  g == ((k - 1) % 3) + 1 IN
                   (IF m[t][g] THEN Pow2(k - 1) ELSE 0) + Code(m, k - 1)
Weight(m) == Code(m, 3 * NTerms)
Init == mask \in Masks /\ (Weight(mask) * 7) % Stride = 0
Next == UNCHANGED mask
Spec == Init /\ [][Next]_mask
Emit == PrintT(ToJson([kind |-> "mask", lkind |-> LKind, mask |-> mask]))
=============================================================================
