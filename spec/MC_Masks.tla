------------------------------- MODULE MC_Masks -------------------------------
(* C06: the space of derivative specifications of a single loss, enumerated exhaustively:
   every assignment of {selected, not selected} to every (loss term, parameter group) pair.
   ODE: 3 terms (dyn, initial condition, observations); stationary: 4 (dyn, normalisation,
   boundary, observations); non-stationary: 5.  Groups: network parameters, equation
   parameters k1, k2.  2^9 = 512, 2^12 = 4096, 2^15 = 32768 masks. *)
EXTENDS Naturals, Sequences, FiniteSets, TLC, Json
CONSTANTS LKind, Stride
VARIABLES mask
NTerms == CASE LKind = "ode" -> 3 [] LKind = "statio" -> 4 [] LKind = "nonstatio" -> 5
Groups == 1..3
Masks == [1..NTerms -> [Groups -> BOOLEAN]]
(* a covering selection for the quick tier: masks whose binary weight pattern is on the stride *)
Weight(m) == LET bit(t, g) == IF m[t][g] THEN 1 ELSE 0 IN
             (bit(1,1) + 2*bit(1,2) + 4*bit(1,3) + 8*bit(2,1) + 16*bit(2,2) + 32*bit(2,3) + 64*bit(3,1) + 128*bit(3,2) + 256*bit(3,3)
              + (IF NTerms >= 4 THEN 512*bit(4,1) + 1024*bit(4,2) + 2048*bit(4,3) ELSE 0)
              + (IF NTerms >= 5 THEN 4096*bit(5,1) + 8192*bit(5,2) + 16384*bit(5,3) ELSE 0))
Init == mask \in Masks /\ (Weight(mask) * 7) % Stride = 0
Next == UNCHANGED mask
Spec == Init /\ [][Next]_mask
Emit == PrintT(ToJson([kind |-> "mask", lkind |-> LKind, mask |-> mask]))
=============================================================================
