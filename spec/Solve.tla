-------------------------------- MODULE Solve --------------------------------
(* Model of jinns.solve with every source of nondeterminism the library resolves through a
   user callback or a numerical accident made explicit: the outcome of each validation call
   (scripted user module: improve? stop?; built-in ValidationLoss: the loss value), the
   iteration and origin of a NaN fault, the period, patience, iteration count.  Every terminal
   state is a SCENARIO: Emit prints it as JSON (script + expected result) and the harness
   replays it into the real jinns.solve (harness/drv_solve.py).
   Properties C07 / C18 / C19 are stated on the terminal states and as action properties. *)
EXTENDS SolveOps, TLC, Json
CONSTANTS MaxN, MaxCE, MaxPatience, MaxVal, WithFaults, WithScript, WithBuiltin, EmitScenarios
VARIABLES C, s, done
vars == <<C, s, done>>
Origins == {"loss", "grad_nn", "grad_eq", "opt"}
BaseC(n, ce, vk, pat, eo, f, o) ==
    [n |-> n, ce |-> ce, vkind |-> vk, script |-> <<>>, vals |-> <<>>, patience |-> pat, earlyOn |-> eo,
     fault |-> f, origin |-> o, v0 |-> 0, o0 |-> 0, d0 |-> 0]
Init == /\ \E n \in 0..MaxN, f \in {-1} \cup (IF WithFaults THEN 0..(MaxN - 1) ELSE {}), o \in Origins :
              /\ f < n /\ (f = -1 => o = "loss")
              /\ \/ C = BaseC(n, 0, "none", 0, FALSE, f, IF f = -1 THEN "none" ELSE o)
                 \/ WithScript /\ \E ce \in 1..MaxCE : C = BaseC(n, ce, "script", 0, FALSE, f, IF f = -1 THEN "none" ELSE o)
                 \/ WithBuiltin /\ \E ce \in 1..MaxCE, pat \in 0..MaxPatience, eo \in BOOLEAN :
                        C = BaseC(n, ce, "builtin", pat, eo, f, IF f = -1 THEN "none" ELSE o)
        /\ s = SolveInit(C) /\ done = FALSE

(* the environment resolves the next validation outcome just before the iteration that needs it *)
Iterate ==
    /\ ~done /\ BreakFun(s, C)
    /\ IF ValidationCalled(s, C)
       THEN \/ C.vkind = "script" /\ \E im \in BOOLEAN, st \in BOOLEAN :
                 C' = [C EXCEPT !.script = Append(@, [improve |-> im, stop |-> st])]
            \/ C.vkind = "builtin" /\ \E v \in 1..MaxVal : C' = [C EXCEPT !.vals = Append(@, v)]
       ELSE C' = C
    /\ s' = OneIteration(s, C') /\ UNCHANGED done
Return == ~done /\ ~BreakFun(s, C) /\ done' = TRUE /\ UNCHANGED <<C, s>>
Next == Iterate \/ Return
Spec == Init /\ [][Next]_vars /\ WF_vars(Next)

R == Result(s, C)
NoStop == C.fault = -1 /\ ~s.early
(* ---- C07: the textbook loop ---- *)
RunsExactlyN == done /\ NoStop => R.iters = C.n /\ R.params = C.n /\ R.opt = C.n /\ R.draws = C.n + 1
HistoryIsReferenceLoop ==
    \A k \in 1..Len(s.hist) : s.hist[k].ver = k - 1 /\ s.hist[k].draw = k /\ s.tracked[k].nn \in {k, NaN} /\ s.tracked[k].eq \in {k, NaN}
HistoryLengths == Len(s.hist) = s.i /\ Len(s.tracked) = s.i /\ Len(s.crit) = s.i
(* ---- C18: NaN faults ---- *)
StopsAfterFault == done /\ C.fault # -1 /\ (\A k \in 1..Len(s.callAt) : s.callAt[k] >= C.fault \/ ~s.early) =>
                      (s.i > C.fault => /\ R.iters = C.fault + 1 /\ R.params = C.fault
                                        /\ NaN \in {s.tracked[C.fault + 1].nn, s.tracked[C.fault + 1].eq} /\ s.hist[C.fault + 1].ver = C.fault)
ReturnedParamsFinite == R.params # NaN /\ R.params <= R.iters
(* ---- C19: validation ---- *)
CalledOnSchedule == C.vkind # "none" => s.callAt = SelectSeq([k \in 1..s.i |-> k - 1], LAMBDA j : j % C.ce = 0)
CriterionCarriedForward ==
    C.vkind # "none" => \A k \in 1..Len(s.crit) : ((k - 1) % C.ce # 0) => s.crit[k] = s.crit[k - 1]
StopRightAfterRequest == [][ s'.early => (s'.i - 1) % C'.ce = 0 ]_vars
StopEndsRun == done /\ s.early => R.iters = s.callAt[Len(s.callAt)] + 1
BestIsLastImprovement ==
    C.vkind = "script" =>
        LET imp == {k \in 1..s.calls : C.script[k].improve} IN
        R.best = IF imp = {} THEN Whole(C.v0)
                 ELSE LET kk == CHOOSE k \in imp : \A j \in imp : j <= k IN
                      Leaves(s.callAt[kk] + 1, C.fault = s.callAt[kk], C)
BuiltinNeverStopsWhenDisabled == C.vkind = "builtin" /\ ~C.earlyOn => ~s.early
BuiltinStopNeedsPatience ==
    C.vkind = "builtin" /\ s.early =>
        /\ s.calls > C.patience
        /\ \A j \in (s.calls - C.patience)..(s.calls - 1) :   \* the `patience` calls before the last one did not improve
              \E m \in 1..(j - 1) : C.vals[m] <= C.vals[j] \/ s.callAt[j] = C.fault
Terminates == <>done
Emit == (done /\ EmitScenarios) => PrintT(ToJson([tag |-> "SCENARIO", C |-> C, exp |-> R]))
=============================================================================
