--------------------------------- MODULE Rar ---------------------------------
(* Schedule / capacity / mask model of residual-adaptive refinement for one or two refined
   axes (times and/or omega), for ALL schedules (start, every), capacities, initial counts and
   selected sizes up to the bounds - the time and space axes have independent sizes.
   One Iterate = one solver iteration: trigger_rar decides between rar_step_true and
   rar_step_false.  Store CONTENTS are abstracted away here (see RarStore); slots, windows and
   probability masks are exact.

   Variant constants (regression witnesses of the deviations found in the pinned tree):
     InitCounter  "period-1" : first step AT start (conforming)   | "zero": init_rar resets to 0
     MaskUpTo     "new"      : the step's own points get p > 0     | "old" : mask lags one step
     TimeBase     "own"      : times written at nt_start + ...     | "space": n_start used for times
     OnRestart    "reset"    : every solve call re-arms the period counter (init_rar) | "keep": a generator returned by an
                               earlier call keeps its stale counter, the schedule of the next call slips

   Restart = a further jinns.solve call fed with the returned generator (at most MaxCalls calls): the iteration counter
   restarts at 0, the burn-in applies again, refinement steps / mask / store are carried over. *)
EXTENDS RarOps, TLC
CONSTANTS MaxCap, MaxSel, MaxStart, MaxEvery, MaxIter, InitCounter, MaskUpTo, TimeBase, OnRestart, MaxCalls
VARIABLES start, every, axes, i, since, steps, act, win, stepped, calls
vars == <<start, every, axes, i, since, steps, act, win, stepped, calls>>

AxisSet == {ax \in [cap : 1..MaxCap, nstart : 1..MaxCap, sel : 1..MaxSel] : ax.nstart <= ax.cap}
Init == /\ start \in 0..MaxStart /\ every \in 1..MaxEvery
        /\ axes \in {<<a>> : a \in AxisSet} \cup {<<a, b>> : a \in AxisSet, b \in AxisSet}
        /\ i = 0 /\ steps = 0 /\ stepped = FALSE /\ calls = 1
        /\ since = IF InitCounter = "zero" THEN 0 ELSE every - 1
        /\ act = [a \in DOMAIN axes |-> Prefix(axes[a].nstart)]
        /\ win = [a \in DOMAIN axes |-> {}]

(* the code's room test: selected <= number of zero-probability slots *)
CodeRoom(a) == axes[a].sel <= axes[a].cap - Cardinality(act[a])
Proceed == start <= i /\ since = every - 1 /\ \A a \in DOMAIN axes : CodeRoom(a)

(* dynamic_update_slice clamps the start offset into the array *)
ClampOff(off, len, cap) == IF off + len > cap THEN cap - len ELSE off
Base(a) == IF TimeBase = "space" /\ Len(axes) = 2 /\ a = 1 THEN axes[2].nstart ELSE axes[a].nstart
WriteWindow(a) ==
    LET off == ClampOff(Base(a) + steps * axes[a].sel, axes[a].sel, axes[a].cap) IN (off + 1)..(off + axes[a].sel)
MaskAfter(a) ==
    LET upTo == IF MaskUpTo = "new" THEN steps + 1 ELSE steps IN
    Prefix(axes[a].nstart) \cup
      UNION {LET off == ClampOff(Base(a) + k * axes[a].sel, axes[a].sel, axes[a].cap) IN (off + 1)..(off + axes[a].sel)
             : k \in 0..(upTo - 1)}

RarTrue  == /\ Proceed
            /\ win' = [a \in DOMAIN axes |-> WriteWindow(a)]
            /\ act' = [a \in DOMAIN axes |-> MaskAfter(a)]
            /\ steps' = steps + 1 /\ since' = 0 /\ stepped' = TRUE
RarFalse == /\ ~Proceed
            /\ since' = since + (IF i > start THEN 1 ELSE 0)
            /\ stepped' = FALSE /\ UNCHANGED <<win, act, steps>>
Iterate == /\ i < MaxIter /\ (RarTrue \/ RarFalse) /\ i' = i + 1 /\ UNCHANGED <<start, every, axes, calls>>
Restart == /\ calls < MaxCalls /\ i > 0 /\ calls' = calls + 1 /\ i' = 0 /\ stepped' = FALSE
           /\ since' = IF OnRestart = "keep" THEN since ELSE IF InitCounter = "zero" THEN 0 ELSE every - 1
           /\ UNCHANGED <<start, every, axes, steps, act, win>>
Next == Iterate \/ Restart
Spec == Init /\ [][Next]_vars /\ WF_vars(Iterate)

(* -------- C16 -------- *)
NoStepBeforeStart == [][ stepped' => i >= start ]_vars
IsIter == i' = i + 1      \* an Iterate step (a Restart sets i' = 0 from i > 0)
StepsExactlyOnSchedule == [][ IsIter => (stepped' <=> StepExpected(i, start, every, axes, steps)) ]_vars
ActiveCount == \A a \in DOMAIN axes : CountVerdict(axes[a], steps, act[a]) = "ok"
NeverExceedsStore == \A a \in DOMAIN axes : NActive(axes[a], steps) <= axes[a].cap
MonitorAgrees == [][ IsIter => ScheduleVerdict(i, start, every, axes, steps, stepped') = "ok" ]_vars
(* -------- C17 (slot level) -------- *)
OnlyInactiveOverwritten == [][ stepped' => \A a \in DOMAIN axes : win'[a] \cap act[a] = {} /\ win'[a] = Window(axes[a], steps) ]_vars
ActiveSlotsSurvive == [][ \A a \in DOMAIN axes : act[a] \subseteq act'[a] ]_vars
AddedBecomeActive == [][ stepped' => \A a \in DOMAIN axes : win'[a] \subseteq act'[a] ]_vars
(* liveness: once the schedule is reached and there is room, a step does happen *)
EventuallySteps == (\A a \in DOMAIN axes : HasRoom(axes[a], 0)) /\ start + 1 <= MaxIter => <>(steps > 0)
=============================================================================
