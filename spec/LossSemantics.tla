---------------------------- MODULE LossSemantics ----------------------------
(* Exact semantics of the loss terms of jinns (jinns/loss/_LossODE.py, _LossPDE.py,
   _loss_utils.py, _boundary_conditions.py) for polynomial networks and integer batches.

   A loss record r describes ONE call loss.evaluate(params, batch):
     r.lkind      "ode" | "statio" | "nonstatio"
     r.dim        spatial dimension (0 for ode)
     r.V          raw network outputs: one polynomial per output, over the network INPUT variables
     r.ot         "none" | "affine": output transform u_k = V_k * th[1] + th[2]
     r.sol        [lo, hi] slice_solution (1-based inclusive) of the network outputs
     r.th         values of the equation parameters (integers), r.pkeys their number
     r.ptab       per parameter: <<>> (not batched) or the column of per-sample values
     r.R          residual polynomials over (inputs, u_1..u_m, th_1..th_p);  <<>> = no dynamic loss
     r.w          weights: [dyn, ic, norm, bnd, obs] each a sequence (length 1 = scalar)
     r.inside     batch rows (t | x | (t, x)),  r.border[f] rows of facet f
     r.ic         ode: [t0, u0 (seq)] ; nonstatio: u0 polynomials over x ; <<>> = none
     r.norm       [samples (rows over x), L] or <<>>
     r.bnd        per facet [kind, g (polys over border inputs), comp [lo, hi]] ; kind "none"
     r.het        per parameter: <<>> or the polynomial h_k over (inputs, th) replacing it inside the equation
     r.obsd       [in (rows), val (rows), slice [lo, hi], etab (per parameter column or <<>>)] or <<>>
   Every value is an exact rational <<num, den>>. *)
EXTENDS Operators

NIn(r) == r.dim + (IF r.lkind = "statio" THEN 0 ELSE 1)
HasT(r) == r.lkind # "statio"
XVars(r) == [k \in 1..r.dim |-> k + (IF HasT(r) THEN 1 ELSE 0)]

(* ---- parameters seen by sample i (C12): batched keys take row i, the others the caller's value *)
ParamsRow(th, tab, i) == [k \in DOMAIN th |-> IF tab[k] = <<>> THEN th[k] ELSE tab[k][i]]
NRows(tab) == LET lens == {Len(tab[k]) : k \in DOMAIN tab} \ {0} IN IF lens = {} THEN 0 ELSE CHOOSE n \in lens : TRUE
Merge(tab, tab2) == [k \in DOMAIN tab |-> IF tab2[k] # <<>> THEN tab2[k] ELSE tab[k]]   \* observed params override

(* ---- the network wrapper on polynomial networks ---- *)
NetRaw(r, in) == [k \in DOMAIN r.V |-> Eval(r.V[k], in)]
NetAll(r, in, th) == LET raw == NetRaw(r, in) IN
                     IF r.ot = "affine" THEN [k \in DOMAIN raw |-> raw[k] * th[1] + th[2]] ELSE raw
SubSeqIdx(s, lohi) == SubSeq(s, lohi[1], lohi[2])
NetSol(r, in, th) == SubSeqIdx(NetAll(r, in, th), r.sol)
(* d u_k / d x_j for the wrapped network: the affine transform multiplies derivatives by th[1] *)
NetDx(r, k, j, in, th) == LET d == Eval(D(r.V[k], j), in) IN IF r.ot = "affine" THEN d * th[1] ELSE d

Weight(w, c) == IF Len(w) = 1 THEN w[1] ELSE w[c]

(* ---- dynamic term: batch mean of the weighted squared residual ---- *)
(* heterogeneous parameters (C12): inside the equation ONLY, a declared parameter k is replaced by the value of its user
   function h_k(point, params); undeclared parameters pass through unchanged; every OTHER term still sees the raw value *)
HetParams(r, in, th) == [k \in DOMAIN th |-> IF r.het[k] = <<>> THEN th[k] ELSE Eval(r.het[k], in \o th)]
Residual(r, in, th) == LET hp == HetParams(r, in, th)      \* the equation (and the network calls it makes) sees hp
                           u == NetAll(r, in, hp) IN
                       [c \in DOMAIN r.R |-> Eval(r.R[c], in \o u \o hp)]
DynPoint(r, in, th, w) == LET res == Residual(r, in, th) IN SumSeq([c \in DOMAIN res |-> Weight(w, c) * res[c] * res[c]])
Dyn(r) == IF r.R = <<>> THEN QI(0)
          ELSE QMean([i \in DOMAIN r.inside |-> QI(DynPoint(r, r.inside[i], ParamsRow(r.th, r.ptab, i), r.w.dyn))])

(* ---- initial condition ---- *)
SqMismatch(a, b, w) == SumSeq([c \in DOMAIN a |-> Weight(w, c) * (a[c] - b[c]) * (a[c] - b[c])])
ICode(r) == LET n == NRows(r.ptab)  rows == IF n = 0 THEN <<1>> ELSE [i \in 1..n |-> i] IN
            QMean([i \in DOMAIN rows |-> QI(SqMismatch(NetAll(r, <<r.ic.t0>>, ParamsRow(r.th, r.ptab, rows[i])), r.ic.u0, r.w.ic))])
ICpde(r) == QMean([j \in DOMAIN r.inside |->
               LET x == Tail(r.inside[j])
                   u0 == [c \in DOMAIN r.ic.u0 |-> Eval(r.ic.u0[c], x)] IN
               QI(SqMismatch(u0, NetAll(r, <<0>> \o x, ParamsRow(r.th, r.ptab, j)), r.w.ic))])
IC(r) == IF r.ic.on = FALSE THEN QI(0) ELSE IF r.lkind = "ode" THEN ICode(r) ELSE ICpde(r)

(* ---- normalisation: w * (L * mean_s u(x_s) - 1)^2, averaged over the batch times ---- *)
\* with a parameter batch (C12): the stationary term pairs normalisation sample s with parameter row s (as many samples as rows);
\* the non-stationary term integrates, at the time stamp of batch row j, with parameter row j
SolMean(r, in, th) == LET sol == NetSol(r, in, th) IN QMean([c \in DOMAIN sol |-> QI(sol[c])])
MCIntegral(r, t, th) ==     \* L * mean of the solution over the samples (and over its components when the solution slice keeps several:
                            \* all four code paths - plain / separable, with / without time - take the mean of every entry)
    QMul(QI(r.norm.L), QMean([s \in DOMAIN r.norm.samples |-> SolMean(r, t \o r.norm.samples[s], th)]))
MCIntegralRows(r) ==
    QMul(QI(r.norm.L), QMean([s \in DOMAIN r.norm.samples |-> SolMean(r, r.norm.samples[s], ParamsRow(r.th, r.ptab, s))]))
NormAt(r, t, th) == QSq(QSub(MCIntegral(r, t, th), QI(1)))
Norm(r) == IF r.norm.on = FALSE THEN QI(0)
           ELSE IF r.lkind = "statio" THEN
                (IF NRows(r.ptab) = 0 THEN QMul(QI(r.w.norm[1]), NormAt(r, <<>>, r.th))
                 ELSE QMul(QI(r.w.norm[1]), QSq(QSub(MCIntegralRows(r), QI(1)))))
           ELSE QMul(QI(r.w.norm[1]), QMean([j \in DOMAIN r.inside |-> NormAt(r, <<r.inside[j][1]>>, ParamsRow(r.th, r.ptab, j))]))

(* ---- observations: row i with row i of every observed parameter ---- *)
Obs(r) == IF r.obsd.on = FALSE THEN QI(0)
          ELSE LET tab == Merge(r.ptab, r.obsd.etab) IN
               QMean([i \in DOMAIN r.obsd.in |->
                   QI(SqMismatch(SubSeqIdx(NetSol(r, r.obsd.in[i], ParamsRow(r.th, tab, i)), r.obsd.slice), r.obsd.val[i], r.w.obs))])

(* ---- boundary: facets xmin, xmax, ymin, ymax; outward unit normals ---- *)
Normal(dim) == IF dim = 1 THEN << <<-1>>, <<1>> >> ELSE << <<-1, 0>>, <<1, 0>>, <<0, -1>>, <<0, 1>> >>
FacetPoint(r, f, j, th, w) ==
    LET in == r.border[f][j]
        b == r.bnd[f]
        g == [c \in DOMAIN b.g |-> Eval(b.g[c], in)]
        lhs == IF b.kind = "dirichlet" THEN SubSeqIdx(NetAll(r, in, th), b.comp)
               ELSE << SumSeq([k \in 1..r.dim |-> Normal(r.dim)[f][k] * NetDx(r, b.comp[1], XVars(r)[k], in, th)]) >> IN
    SqMismatch(lhs, g, <<w>>)
Facet(r, f) == QMean([j \in DOMAIN r.border[f] |-> QI(FacetPoint(r, f, j, ParamsRow(r.th, r.ptab, j), r.w.bnd[1]))])
Bnd(r) == QSum([f \in DOMAIN r.bnd |-> IF r.bnd[f].kind = "none" THEN QI(0) ELSE Facet(r, f)])

Terms(r) == [dyn_loss |-> Dyn(r), initial_condition |-> IC(r), norm_loss |-> Norm(r), boundary_loss |-> Bnd(r), observations |-> Obs(r)]
Total(r) == LET t == Terms(r) IN QSum(<<t.dyn_loss, t.initial_condition, t.norm_loss, t.boundary_loss, t.observations>>)

(* ---------------- systems (C13) ----------------
   r.nets[u]  = [name, V (one polynomial: the output the equations use) [, V2: a second, only observed, output], ic, bnd, obsd]   the unknowns, in key order
   r.eqs[e]   = [name, R (polynomial over (inputs, u_1..u_n, th)), w]   the equations, with their weight
   r.wu[u]    = [ic, norm, bnd, obs] weights of unknown u
   The equation e is called with (t, x, all networks, all parameters); every other term is the sum over unknowns of
   the single-network term (weight 1 inside) times that unknown's weight. *)
AllU(r, in) == [u \in DOMAIN r.nets |-> Eval(r.nets[u].V, in)]
\* an equation may declare heterogeneous parameters (r.eqs[e].het[k], a polynomial over (inputs, th), or <<>>): replaced inside THIS equation only
SysHet(r, e, in, th) == IF "het" \in DOMAIN r.eqs[e] THEN [k \in DOMAIN th |-> IF r.eqs[e].het[k] = <<>> THEN th[k] ELSE Eval(r.eqs[e].het[k], in \o th)] ELSE th
SysRes(r, e, in, th) == Eval(r.eqs[e].R, in \o AllU(r, in) \o SysHet(r, e, in, th))
SysDyn(r) == QSum([e \in DOMAIN r.eqs |->
                 QMul(QI(r.eqs[e].w), QMean([i \in DOMAIN r.inside |->
                     LET v == SysRes(r, e, r.inside[i], ParamsRow(r.th, r.ptab, i)) IN QI(v * v)]))])
One == <<1>>
NetOutputs(n) == IF "V2" \in DOMAIN n THEN <<n.V, n.V2>> ELSE <<n.V>>     \* an optional second output (only observed, never used by the equations)
SubRec(r, u) == [lkind |-> r.lkind, dim |-> r.dim, V |-> NetOutputs(r.nets[u]), ot |-> "none", sol |-> <<1, Len(NetOutputs(r.nets[u]))>>, th |-> r.th, ptab |-> r.ptab,
                 R |-> <<>>, het |-> [k \in DOMAIN r.th |-> <<>>], w |-> [dyn |-> One, ic |-> One, norm |-> One, bnd |-> One, obs |-> One],
                 inside |-> r.inside, border |-> r.border, ic |-> r.nets[u].ic,
                 norm |-> IF "norm" \in DOMAIN r.nets[u] THEN r.nets[u].norm ELSE [on |-> FALSE],      \* per-unknown normalisation samples / volume
                 bnd |-> r.nets[u].bnd, obsd |-> r.nets[u].obsd]
SysTerms(r) ==
    [dyn_loss |-> SysDyn(r),
     initial_condition |-> QSum([u \in DOMAIN r.nets |-> QMul(QI(r.wu[u].ic), IC(SubRec(r, u)))]),
     norm_loss |-> QSum([u \in DOMAIN r.nets |-> QMul(QI(r.wu[u].norm), Norm(SubRec(r, u)))]),
     boundary_loss |-> QSum([u \in DOMAIN r.nets |-> QMul(QI(r.wu[u].bnd), Bnd(SubRec(r, u)))]),
     observations |-> QSum([u \in DOMAIN r.nets |-> QMul(QI(r.wu[u].obs), Obs(SubRec(r, u)))])]
(* a one-equation one-unknown system is the plain loss *)
PlainOf(r) == [SubRec(r, 1) EXCEPT !.R = <<r.eqs[1].R>>,
                                   !.w = [dyn |-> <<r.eqs[1].w>>, ic |-> <<r.wu[1].ic>>, norm |-> One, bnd |-> <<r.wu[1].bnd>>, obs |-> <<r.wu[1].obs>>]]
=============================================================================
