-------------------------------- MODULE MC_Net --------------------------------
(* Structural configuration space of C10 (network wrappers), enumerated by TLC. *)
EXTENDS Naturals, Sequences, FiniteSets, TLC, Json
VARIABLES cfg
EqTypes == {"ODE", "statio_PDE", "nonstatio_PDE"}
Pinn == [kind : {"net_struct"}, wrapper : {"pinn", "hyper"}, eq_type : EqTypes, nout : 1..3, it : {"none", "shift"}, ot : {"none", "scale"},
         shared : {"none", "first", "last2", "lastint", "firstint"}, pform : {"full", "bare"}, tform : {"scalar", "one"}, depth : 1..2, act : {"id", "sq"}, dimx : 1..2]
PinnOK(c) == /\ (c.eq_type = "ODE" => c.dimx = 1)
             /\ (c.tform = "scalar" => c.eq_type = "ODE")
             /\ (c.pform = "bare" => c.it = "none" /\ c.ot = "none" /\ c.wrapper = "pinn")
             /\ (c.shared = "first" => c.nout >= 2) /\ (c.shared = "last2" => c.nout = 3)
             /\ (c.shared \in {"lastint", "firstint"} => c.nout >= 2)    \* a plain integer as output slice (jnp.s_[-1], jnp.s_[0]), plain and hyper networks
             /\ (c.wrapper = "hyper" => c.shared \in {"none", "first", "firstint", "lastint"} /\ c.dimx = 1)      \* hyper-networks: scalar and length-one times alike
Spinn == [kind : {"net_struct"}, wrapper : {"spinn"}, eq_type : {"statio_PDE", "nonstatio_PDE"}, d : 1..3, r : 1..3, m : 1..2, b : 1..3,
          depth : 1..2, act : {"id", "sq"}, pform : {"full", "bare"}]
SpinnOK(c) == (c.eq_type = "nonstatio_PDE" => c.d >= 2) /\ (c.d = 3 => c.b <= 2)
Space == {c \in Pinn : PinnOK(c)} \cup {c \in Spinn : SpinnOK(c)}
Init == cfg \in Space
Next == UNCHANGED cfg
Spec == Init /\ [][Next]_cfg
Emit == PrintT(ToJson(cfg))
=============================================================================
