CONSTANTS MaxCap = 5
MaxSel = 2
MaxStart = 2
MaxEvery = 3
MaxIter = 9
InitCounter = "period-1"
MaskUpTo = "new"
TimeBase = "own"
OnRestart = "reset"
MaxCalls = 2
SPECIFICATION Spec
PROPERTY NoStepBeforeStart
PROPERTY StepsExactlyOnSchedule
INVARIANT ActiveCount
INVARIANT NeverExceedsStore
PROPERTY MonitorAgrees
PROPERTY OnlyInactiveOverwritten
PROPERTY ActiveSlotsSurvive
PROPERTY AddedBecomeActive
PROPERTY EventuallySteps
