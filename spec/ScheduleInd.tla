---------------------------- MODULE ScheduleInd ----------------------------
(* Unbounded-parameter companion of Rar.tla (Apalache, inductive invariant): the refinement SCHEDULE of one axis for ALL
   start iterations, periods, capacities, initial counts and selected sizes.  One Iterate = trigger_rar at iteration i
   (jinns/solver/_rar.py: _proceed_to_rar, rar_step_true, rar_step_false; init_rar arms the counter at every - 1).
   `stepped` records whether the iteration just executed (i - 1) refined.
     Init => IndInv                        --init=Init    --inv=IndInv --length=0
     IndInv /\ Next => IndInv'             --init=IndInit --inv=IndInv --length=1
     IndInv => OnSchedule /\ WithinStore   --init=IndInit --inv=Claims --length=0                                        *)
EXTENDS Integers

VARIABLES
    \* @type: Int;
    start,
    \* @type: Int;
    every,
    \* @type: Int;
    cap,
    \* @type: Int;
    nstart,
    \* @type: Int;
    sel,
    \* @type: Int;
    i,
    \* @type: Int;
    since,
    \* @type: Int;
    steps,
    \* @type: Bool;
    stepped,
    \* @type: Bool;
    roomBefore

Room == nstart + (steps + 1) * sel <= cap                 \* the code's test: selected <= number of inactive slots
Proceed == start <= i /\ since = every - 1 /\ Room

Init == /\ start \in Int /\ every \in Int /\ cap \in Int /\ nstart \in Int /\ sel \in Int
        /\ start >= 0 /\ every >= 1 /\ nstart >= 1 /\ nstart <= cap /\ sel >= 1
        /\ i = 0 /\ since = every - 1 /\ steps = 0 /\ stepped = FALSE /\ roomBefore = (nstart + sel <= cap)

Next == /\ i' = i + 1 /\ roomBefore' = Room
        /\ IF Proceed THEN steps' = steps + 1 /\ since' = 0 /\ stepped' = TRUE
           ELSE steps' = steps /\ stepped' = FALSE /\ since' = since + (IF i > start THEN 1 ELSE 0)
        /\ UNCHANGED <<start, every, cap, nstart, sel>>

Scheduled(j) == j >= start /\ (j - start) % every = 0
(* while there is room the period counter is a function of the iteration number *)
CounterLaw == Room => since = (IF i <= start THEN every - 1 ELSE (i - start - 1) % every)
IndInv == /\ start >= 0 /\ every >= 1 /\ nstart >= 1 /\ sel >= 1 /\ steps >= 0 /\ i >= 0 /\ since >= 0
          /\ nstart + steps * sel <= cap                                     \* C16: never beyond the store
          /\ CounterLaw
          /\ (i = 0 => ~stepped)
          /\ (stepped => i >= 1 /\ Scheduled(i - 1) /\ roomBefore)             \* a step only on the schedule, and only with room
          /\ (i >= 1 /\ ~stepped /\ Scheduled(i - 1) => ~roomBefore)         \* a scheduled iteration without a step: no room
(* C16 for all sizes: steps happen exactly at start + k * every while another full set fits, and never beyond the store *)
Claims == /\ (stepped <=> (i >= 1 /\ Scheduled(i - 1) /\ roomBefore))
          /\ nstart + steps * sel <= cap
IndInit == /\ start \in Int /\ every \in Int /\ cap \in Int /\ nstart \in Int /\ sel \in Int /\ i \in Int /\ since \in Int /\ steps \in Int
           /\ stepped \in BOOLEAN /\ roomBefore \in BOOLEAN
           /\ IndInv
=============================================================================
