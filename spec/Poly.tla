--------------------------------- MODULE Poly ---------------------------------
(* Exact multivariate polynomial calculus.  A polynomial in k variables is a sequence of terms
   [c |-> Int, e |-> <<e1..ek>>]; points are sequences of integers (or of rationals for the Q-prefixed operators).
   The variables are the network inputs AND the parameters alike, so the specification can
   evaluate and differentiate a network or a residual with respect to any of them. *)
EXTENDS Prelude

EvalTerm(tm, x) == tm.c * ProdSeq([i \in 1..Len(x) |-> Pow(x[i], tm.e[i])])
Eval(p, x) == SumSeq([k \in 1..Len(p) |-> EvalTerm(p[k], x)])
DTerm(tm, i) == IF tm.e[i] = 0 THEN [c |-> 0, e |-> tm.e]
                ELSE [c |-> tm.c * tm.e[i], e |-> [tm.e EXCEPT ![i] = @ - 1]]
D(p, i) == [k \in 1..Len(p) |-> DTerm(p[k], i)]
Add(p, q) == p \o q
Scale(a, p) == [k \in 1..Len(p) |-> [c |-> a * p[k].c, e |-> p[k].e]]
MulTerm(a, b) == [c |-> a.c * b.c, e |-> [i \in 1..Len(a.e) |-> a.e[i] + b.e[i]]]
Mul(p, q) == [k \in 1..(Len(p) * Len(q)) |-> MulTerm(p[((k - 1) \div Len(q)) + 1], q[((k - 1) % Len(q)) + 1])]
Const(a, k) == << [c |-> a, e |-> [i \in 1..k |-> 0]] >>
Var(i, k) == << [c |-> 1, e |-> [j \in 1..k |-> IF j = i THEN 1 ELSE 0]] >>

(* rational points *)
RECURSIVE QPow(_, _)
QPow(b, n) == IF n = 0 THEN QI(1) ELSE QMul(b, QPow(b, n - 1))
QEvalTerm(tm, x) == FoldLeft(QMul, QI(tm.c), [i \in 1..Len(x) |-> QPow(x[i], tm.e[i])])
QEval(p, x) == QSum([k \in 1..Len(p) |-> QEvalTerm(p[k], x)])

(* all exponent vectors of total degree <= deg in k variables: the monomial basis *)
Monomials(k, deg) == {e \in [1..k -> 0..deg] : SumSeq(e) <= deg}
=============================================================================
