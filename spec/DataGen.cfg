CONSTANTS MaxN = 2
MaxDraws = 4
SPECIFICATION Spec
INVARIANT ProductExact
INVARIANT PairingExact
INVARIANT RowCounts
