------------------------------ MODULE Trace_Func ------------------------------
(* Conformance of jinns' pure functions (operators, equations, loss terms, network wrappers)
   with the exact oracles of the specification.  Each record carries one configuration - the
   inputs exactly as the implementation received them - and the exact observed value(s)
   (rationals {n, d}).  The expected value is recomputed here from the configuration. *)
EXTENDS LossSemantics, TLC, TLCExt, Json, IOUtils
EQ == INSTANCE Equations
NET == INSTANCE Net
SP == INSTANCE SpinnPoly
Recs == JsonDeserialize(IOEnv.TRACE_FILE)
VARIABLES tid, viol
vars == <<tid, viol>>
Rec == Recs[tid]
ObsOK(o) == \A k \in DOMAIN o : o[k].ok
ObsInts(o) == [k \in DOMAIN o |-> IF o[k].d = 1 THEN o[k].n ELSE 1000000007]   \* non-integers never match

(* ---------------- C01 operators ---------------- *)
XSof(r) == [k \in 1..r.dim |-> k + (IF r.withT THEN 1 ELSE 0)]
OperatorExpected(r, pt) ==
    CASE r.op = "lap"    -> <<LapAt(r.fields[1], XSof(r), pt)>>
      [] r.op = "div"    -> <<DivAt(r.fields, XSof(r), pt)>>
      [] r.op = "veclap" -> VecLapAt(r.fields, XSof(r), pt)
      [] r.op = "adv"    -> AdvAt(r.fields, XSof(r), pt)
OperatorVerdict(r) ==
    IF r.exc # "" THEN "OperatorRaised"
    ELSE IF Len(r.obs) # Len(r.pts) THEN "ResultShape"
    ELSE IF \E p \in DOMAIN r.pts : ~ObsOK(r.obs[p]) THEN "ValueNotExact"
    ELSE IF \E p \in DOMAIN r.pts : Len(r.obs[p]) # Len(OperatorExpected(r, r.pts[p])) THEN "ResultShape"
    ELSE IF \E p \in DOMAIN r.pts : ObsInts(r.obs[p]) # OperatorExpected(r, r.pts[p]) THEN
            (CASE r.op = "lap" -> "LaplacianValue" [] r.op = "div" -> "DivergenceValue"
               [] r.op = "veclap" -> "VectorLaplacianValue" [] r.op = "adv" -> "AdvectionValue")
    ELSE "ok"

(* ---------------- loss terms (C03 C04 C05 C12) ---------------- *)
QOK(o) == o.ok
QV(o) == QN(o.n, o.d)
Checked(r, name) == \E k \in DOMAIN r.check : r.check[k] = name
LossVerdict(r) ==
    IF r.exc # "" THEN "LossRaised"
    ELSE LET o == r.obs  e == Terms(r) IN
    IF ~(QOK(o.total) /\ QOK(o.dyn_loss) /\ QOK(o.initial_condition) /\ QOK(o.norm_loss) /\ QOK(o.boundary_loss) /\ QOK(o.observations))
        THEN "ValueNotExact"
    ELSE IF Checked(r, "sum") /\ QV(o.total) # QSum(<<QV(o.dyn_loss), QV(o.initial_condition), QV(o.norm_loss), QV(o.boundary_loss), QV(o.observations)>>)
        THEN "TotalNotSumOfTerms"
    ELSE IF Checked(r, "dyn") /\ QV(o.dyn_loss) # e.dyn_loss THEN (IF r.R = <<>> THEN "UnconfiguredTermNotZero" ELSE "DynamicTermValue")
    ELSE IF Checked(r, "ic") /\ QV(o.initial_condition) # e.initial_condition THEN (IF r.ic.on THEN "InitialConditionValue" ELSE "UnconfiguredTermNotZero")
    ELSE IF Checked(r, "norm") /\ QV(o.norm_loss) # e.norm_loss THEN (IF r.norm.on THEN "NormalisationValue" ELSE "UnconfiguredTermNotZero")
    ELSE IF Checked(r, "bnd") /\ QV(o.boundary_loss) # e.boundary_loss THEN
            (IF \A f \in DOMAIN r.bnd : r.bnd[f].kind = "none" THEN "UnconfiguredTermNotZero"
             ELSE IF \E f \in DOMAIN r.bnd : r.bnd[f].kind = "neumann" THEN "NeumannBoundaryValue" ELSE "DirichletBoundaryValue")
    ELSE IF Checked(r, "obs") /\ QV(o.observations) # e.observations THEN (IF r.obsd.on THEN "ObservationValue" ELSE "UnconfiguredTermNotZero")
    ELSE "ok"

(* ---------------- C06: routing of gradients by the derivative specification ---------------- *)
(* r.G[t][g]: the gradient of term t w.r.t. group g (a sequence of rationals), measured once with everything selected;
   r.mask[t][g]: the specification under test; r.obs.grad[g]: gradient of the TOTAL under that specification *)
ExpectedGrad(r, g) == [k \in DOMAIN r.G[1][g] |->
                         QSum([t \in DOMAIN r.G |-> IF r.mask[t][g] THEN QV(r.G[t][g][k]) ELSE QI(0)])]
GradVerdict(r) ==
    IF r.exc # "" THEN "GradientRaised"
    ELSE IF \E g \in DOMAIN r.obs.grad : \E k \in DOMAIN r.obs.grad[g] : ~r.obs.grad[g][k].ok THEN "ValueNotExact"
    ELSE IF \E t \in DOMAIN r.obs.terms : QV(r.obs.terms[t]) # QV(r.ref[t]) THEN "LossValueDependsOnDerivativeKeys"
    ELSE IF QV(r.obs.total) # QSum([t \in DOMAIN r.ref |-> QV(r.ref[t])]) THEN "LossValueDependsOnDerivativeKeys"
    ELSE IF \E g \in DOMAIN r.obs.grad : [k \in DOMAIN r.obs.grad[g] |-> QV(r.obs.grad[g][k])] # ExpectedGrad(r, g) THEN
         (IF \E g \in DOMAIN r.obs.grad : \E k \in DOMAIN r.obs.grad[g] :
                 QV(r.obs.grad[g][k]) # QI(0) /\ \A t \in DOMAIN r.G : ~r.mask[t][g]
          THEN "UnselectedPairContributes" ELSE "GradientNotSumOfSelectedTerms")
    ELSE "ok"

(* ---------------- systems (C13) ---------------- *)
SysVerdict(r) ==
    IF r.exc # "" THEN "SystemLossRaised"
    ELSE LET o == r.obs  e == SysTerms(r) IN
    IF ~(QOK(o.total) /\ QOK(o.dyn_loss) /\ QOK(o.initial_condition) /\ QOK(o.norm_loss) /\ QOK(o.boundary_loss) /\ QOK(o.observations))
        THEN "ValueNotExact"
    ELSE IF QV(o.total) # QSum(<<QV(o.dyn_loss), QV(o.initial_condition), QV(o.norm_loss), QV(o.boundary_loss), QV(o.observations)>>)
        THEN "TotalNotSumOfTerms"
    ELSE IF QV(o.dyn_loss) # e.dyn_loss THEN "SystemDynamicTermValue"
    ELSE IF QV(o.initial_condition) # e.initial_condition THEN "SystemInitialConditionValue"
    ELSE IF QV(o.boundary_loss) # e.boundary_loss THEN "SystemBoundaryValue"
    ELSE IF QV(o.observations) # e.observations THEN "SystemObservationValue"
    ELSE IF QV(o.norm_loss) # e.norm_loss THEN "SystemNormalisationValue"
    ELSE "ok"
(* the differential clause on real networks (MLP / hyper-network PINNs): a one-equation one-unknown system returns the terms of the plain
   loss built from the same pieces; the comparison (relative 1e-9, x64) is made by the driver, this verdict only names the failure *)
SysPlainVerdict(r) ==
    IF r.exc # "" THEN "SystemLossRaised"
    ELSE IF ~r.ok THEN "OneByOneSystemDiffersFromPlainLoss"
    ELSE "ok"
SysLemmaBad == {k \in DOMAIN Recs : Recs[k].kind = "sysloss" /\ Len(Recs[k].eqs) = 1 /\ Len(Recs[k].nets) = 1
                                     /\ LET r == Recs[k]  s == SysTerms(r)  p == Terms(PlainOf(r)) IN
                                        ~(s.dyn_loss = p.dyn_loss /\ s.initial_condition = p.initial_condition
                                          /\ s.boundary_loss = p.boundary_loss /\ s.observations = p.observations)}

(* ---------------- C02 built-in equations ---------------- *)
EquationVerdict(r) ==
    IF r.exc # "" THEN "EquationRaised"
    ELSE IF Len(r.obs) # Len(r.pts) THEN "ResultShape"
    ELSE IF \E p \in DOMAIN r.pts : ~ObsOK(r.obs[p]) THEN "ValueNotExact"
    ELSE IF \E p \in DOMAIN r.pts : Len(r.obs[p]) # Len(EQ!Residual(r, r.pts[p])) THEN "ResultShape"
    ELSE IF \E p \in DOMAIN r.pts : [k \in DOMAIN r.obs[p] |-> QV(r.obs[p][k])] # EQ!Residual(r, r.pts[p]) THEN
            (CASE r.eq = "burgers" -> "BurgersResidual" [] r.eq = "fisher" -> "FisherKPPResidual" [] r.eq = "ou" -> "FokkerPlanckResidual"
               [] r.eq = "masscons" -> "MassConservationResidual" [] r.eq = "ns" -> "NavierStokesResidual" [] r.eq = "glv" -> "LotkaVolterraResidual")
    ELSE "ok"

(* ---------------- C10 network wrappers ---------------- *)
NetExpected(r, k) == IF r.wrapper = "pinn" THEN NET!PinnEval(r, r.ins[k]) ELSE NET!HyperEval(r, r.ins[k])
SpinnShape(r) == [k \in 1..(r.d + 1) |-> IF k <= r.d THEN r.b ELSE r.M]
NetVerdict(r) ==
    IF r.exc # "" THEN "WrapperRaised"
    ELSE IF r.wrapper = "spinn" THEN
         (IF r.oshapes # <<SpinnShape(r)>> THEN "SeparableOutputShape"
          ELSE IF \E n \in DOMAIN r.obs : ~ObsOK(r.obs[n]) THEN "ValueNotExact"
          ELSE IF \E n \in DOMAIN r.idxs : ObsInts(r.obs[n]) # [m \in 1..r.M |-> NET!SpinnAt(r, r.idxs[n], m)] THEN "SeparableGridValue"
          ELSE "ok")
    ELSE IF \E k \in DOMAIN r.ins : Len(r.oshapes[k]) # 1 THEN "OutputRankNotOne"
    ELSE IF \E k \in DOMAIN r.ins : ~ObsOK(r.obs[k]) THEN "ValueNotExact"
    ELSE IF \E k \in DOMAIN r.ins : ObsInts(r.obs[k]) # NetExpected(r, k) THEN
            (IF r.wrapper = "hyper" THEN "HyperNetworkValue" ELSE "WrapperValue")
    ELSE "ok"

(* ---------------- C11 forward (separable grid) vs reverse (pointwise) ---------------- *)
FRX(r) == [k \in 1..(r.d - (IF r.withT THEN 1 ELSE 0)) |-> k + (IF r.withT THEN 1 ELSE 0)]       \* spatial variables
FRExpected(r, idx) ==
    LET F == SP!Fields(r)  pt == SP!PointOf(r, idx)  X == FRX(r) IN
    CASE r.op = "lap"      -> <<QI(LapAt(F[1], X, pt))>>
      [] r.op = "div"      -> <<QI(DivAt(F, X, pt))>>
      [] r.op \in {"veclap", "veclapdef"} -> [j \in DOMAIN F |-> QI(LapAt(F[j], X, pt))]
      [] r.op = "adv"      -> [j \in DOMAIN F |-> QI(AdvAt(F, X, pt)[j])]
      [] r.op = "masscons" -> <<QI(DivAt(F, X, pt))>>
      [] r.op \in {"burgers", "fisher", "ou"} -> EQ!Residual([eq |-> r.op, U |-> F, par |-> r.par, Tmax |-> r.Tmax, dim |-> r.d - 1], pt)
      [] r.op = "ns" -> EQ!Residual([eq |-> "ns", U |-> F, P |-> SP!Fields([r EXCEPT !.coef = r.coefP, !.M = 1])[1], par |-> r.par,
                                      Tmax |-> 1, dim |-> 2], pt)
FRVerdict(r) ==
    IF r.exc # "" THEN "ForwardOrReverseRaised"
    ELSE IF Len(r.fwd) # Len(r.idxs) THEN "ForwardGridShape"
    ELSE IF \E n \in DOMAIN r.idxs : ~ObsOK(r.fwd[n]) \/ ~ObsOK(r.rev[n]) THEN "ValueNotExact"
    ELSE IF \E n \in DOMAIN r.idxs : [k \in DOMAIN r.rev[n] |-> QV(r.rev[n][k])] # FRExpected(r, r.idxs[n]) THEN "ReverseModeValue"
    ELSE IF \E n \in DOMAIN r.idxs : [k \in DOMAIN r.fwd[n] |-> QV(r.fwd[n][k])] # FRExpected(r, r.idxs[n]) THEN "ForwardModeGridValue"
    ELSE "ok"

Verdict == CASE Rec.kind = "operator" -> OperatorVerdict(Rec)
             [] Rec.kind = "fwdrev" -> FRVerdict(Rec)
             [] Rec.kind = "net" -> NetVerdict(Rec)
             [] Rec.kind = "equation" -> EquationVerdict(Rec)
             [] Rec.kind = "sysloss" -> SysVerdict(Rec)
             [] Rec.kind = "sysplain" -> SysPlainVerdict(Rec)
             [] Rec.kind = "grad" -> GradVerdict(Rec)
             [] Rec.kind = "loss" -> LossVerdict(Rec)
             [] OTHER -> "UnknownKind"

(* the "consequently" clauses of C03 are lemmas of the oracle, checked on the twin records of this very run:
   permutation invariance, average of two equal halves, linearity in a scalar weight *)
HasTwin(k) == Recs[k].kind = "loss" /\ "twin" \in DOMAIN Recs[k] /\ Recs[k].twin # "base"
BaseOf(k) == CHOOSE j \in DOMAIN Recs : Recs[j].kind = "loss" /\ "twin" \in DOMAIN Recs[j] /\ Recs[j].twin = "base"
                                          /\ Recs[j].group = Recs[k].group /\ Recs[j].call = "evaluate"
OtherHalf(k) == CHOOSE j \in DOMAIN Recs : Recs[j].kind = "loss" /\ "twin" \in DOMAIN Recs[j] /\ Recs[j].group = Recs[k].group
                                             /\ Recs[j].twin = (IF Recs[k].twin = "halfA" THEN "halfB" ELSE "halfA")
TwinLemma(k) ==
    LET r == Recs[k]  b == Recs[BaseOf(k)] IN
    CASE r.twin = "perm" -> Dyn(r) = Dyn(b)
      [] r.twin \in {"halfA", "halfB"} -> QAdd(Dyn(r), Dyn(Recs[OtherHalf(k)])) = QMul(QI(2), Dyn(b))
      [] r.twin = "rew" -> (Len(r.w.dyn) = 1 => Dyn(r) = QMul(QI(3), Dyn(b)))
      [] OTHER -> TRUE
LemmaBad == {k \in DOMAIN Recs : HasTwin(k) /\ ~TwinLemma(k)}
LemmaReport == tid = 1 /\ viol = "init" => (LemmaBad \cup SysLemmaBad = {} \/ PrintT(ToJson([tag |-> "LEMMA", bad |-> LemmaBad \cup SysLemmaBad])))

Init == tid \in 1..Len(Recs) /\ viol = "init"
Step == viol = "init" /\ viol' = Verdict /\ UNCHANGED tid
Spec == Init /\ [][Step]_vars
Report == (viol # "ok" /\ viol # "init") => PrintT(ToJson([tag |-> "REJECT", tid |-> tid, ev |-> 0, clause |-> viol]))
Done == viol = "ok" => TLCSet(1, TLCGet(1) \cup {tid})
Summary == PrintT(ToJson([tag |-> "ACCEPTED", n |-> Cardinality(TLCGet(1)), total |-> Len(Recs)]))
ASSUME TLCSet(1, {})
=============================================================================
