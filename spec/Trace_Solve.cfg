SPECIFICATION Spec
INVARIANT Report
INVARIANT Done
POSTCONDITION Summary
CHECK_DEADLOCK FALSE
