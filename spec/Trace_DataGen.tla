---------------------------- MODULE Trace_DataGen ----------------------------
(* Trace monitor: histories of get_batch calls recorded from the REAL jinns generators
   (harness/drv_datagen.py) are replayed against the clause operators of BatchingOps /
   DataGenOps.  One TLC run validates a whole file of traces: Init picks a trace id, Step
   consumes one logged event, `viol` receives the name of the first failing clause (so the
   verdict is total and names clause + event), accepted ids accumulate in TLC register 1.

   Prop selects the clause set of one property (C08, C09, C14, C15); the state tracked by the
   monitor (order / cursor / served set of every store) always follows the LOGGED state, so a
   failing clause of another property does not disturb the one being decided. *)
EXTENDS DataGenOps, TLC, TLCExt, Json, IOUtils
CONSTANT Prop
Traces == JsonDeserialize(IOEnv.TRACE_FILE)
VARIABLES tid, l, st, viol
vars == <<tid, l, st, viol>>

T == Traces[tid]
E == T.ev[l]
NS == Len(T.stores)
S(s) == T.stores[s]
Ids(s) == 1..Len(S(s).init)
ActOf(s) == {k \in 1..Len(S(s).mask) : S(s).mask[k]}
FirstBad(seq) == LET bad == SelectSeq(seq, LAMBDA v : v # "ok") IN IF bad = <<>> THEN "ok" ELSE Head(bad)
AllTrue(seq) == \A k \in DOMAIN seq : seq[k]

(* ------------------------------------------------------------------ construction clauses *)
InitC08(s) ==
    LET R == S(s) IN
    IF Len(R.init) # R.req THEN "CountMismatch"
    ELSE IF R.shape # StoreShape(T.kind, R.name, R.req, T.dim) THEN "StoreShape"
    ELSE IF ~AllTrue(R.inDom) THEN "StoredPointOutsideDomain"
    ELSE IF \E k \in DOMAIN R.onFacet : ~AllTrue(R.onFacet[k]) THEN "BorderPointOffFacet"
    ELSE IF \E k \in DOMAIN R.along : ~AllTrue(R.along[k]) THEN "BorderPointLeavesFacet"
    ELSE IF ~IsPermOf(R.init, Ids(s)) THEN "DuplicateOrUnknownPoint"
    ELSE "ok"
InitC15(s) ==
    LET R == S(s) IN
    IF Len(R.init) # R.req THEN "CountMismatch"
    ELSE IF R.userTable /\ R.init # [k \in 1..R.req |-> k] THEN "UserTableNotStored"
    ELSE IF ~AllTrue(R.inDom) THEN "SampleOutsideRange"
    ELSE "ok"
InitVerdict ==
    IF T.exc # "" THEN "ConstructionRejected"
    ELSE IF Prop = "C08" THEN FirstBad([s \in 1..NS |-> InitC08(s)])
    ELSE IF Prop = "C15" THEN FirstBad([s \in 1..NS |-> InitC15(s)])
    ELSE "ok"

(* ------------------------------------------------------------------ per-event clauses *)
NewOrder(s) == E.st[s].order
NewCur(s) == E.st[s].cur
Sub(s) ==     \* the sub-batch this very call served from store s
    IF S(s).mode = "static" THEN NewOrder(s)
    ELSE IF S(s).observable THEN E.st[s].bt
    ELSE Slice(NewOrder(s), NewCur(s), Len(NewOrder(s)), S(s).b)

StoreC09(s) ==
    IF S(s).mode = "static"
    THEN IF NewOrder(s) # st[s].order THEN "StoreChangedWithoutReshuffle" ELSE "ok"
    ELSE DrawVerdict("ge", l = 1 /\ T.fresh, Ids(s), st[s].order, ActOf(s), st[s].cur, S(s).b, S(s).neff,
                     st[s].served, NewOrder(s), NewCur(s), Sub(s))
StoreC08(s) ==
    IF ~IsPermOf(NewOrder(s), Ids(s)) THEN "StoreNotPermutation"
    ELSE IF \E k \in DOMAIN Sub(s) : Sub(s)[k] \notin Ids(s) THEN "BatchPointNotInStore"
    ELSE IF S(s).mode # "static" /\ Len(Sub(s)) # S(s).b THEN "BatchSize"
    ELSE IF S(s).mode # "static" /\ ~BatchOK(NewOrder(s), NewCur(s), S(s).b, Sub(s)) THEN "BatchNotSliceOfStore"
    ELSE "ok"

Idx(name) == CHOOSE s \in 1..NS : S(s).name = name
Has(name) == \E s \in 1..NS : S(s).name = name

Products ==
    IF T.kind # "nonstatio" THEN "ok"
    ELSE LET tb == Sub(Idx("times"))  xb == Sub(Idx("omega")) IN
         IF E.inside # InsideRows(T.cart, tb, xb) THEN
              (IF T.cart THEN "InsideNotCartesianProduct" ELSE "InsideNotPairing")
         ELSE IF Has("border") /\ \E f \in DOMAIN E.border :
                   E.border[f] # BorderRows(T.cart, T.dim, tb, Sub(Idx("border")))
              THEN (IF T.cart \/ T.dim = 1 THEN "BorderNotCartesianProduct" ELSE "BorderNotPairing")
         ELSE "ok"

BS(name) == S(Idx(name)).b
Shapes ==
    CASE T.kind = "ode" -> IF E.shapes.t # OdeBatchShape(BS("times")) THEN "BatchShape" ELSE "ok"
      [] T.kind = "statio" ->
           IF E.shapes.inside # StatioInsideShape(BS("omega"), T.dim) THEN "BatchShape"
           ELSE IF Has("border") /\ E.shapes.border # StatioBorderShape(BS("border"), T.dim) THEN "BorderBatchShape"
           ELSE IF ~Has("border") /\ E.shapes.border # <<>> THEN "BorderBatchShape"
           ELSE "ok"
      [] T.kind = "nonstatio" ->
           IF E.shapes.inside # NonStatioInsideShape(T.cart, BS("times"), BS("omega"), T.dim) THEN "BatchShape"
           ELSE IF Has("border") /\ E.shapes.border # NonStatioBorderShape(T.cart, BS("times"), BS("border"), T.dim)
                THEN "BorderBatchShape"
           ELSE IF ~Has("border") /\ E.shapes.border # <<>> THEN "BorderBatchShape"
           ELSE "ok"
      [] OTHER -> "ok"

(* C15: every batch row comes from ONE original row, the one the shuffled index says *)
RowsC15(s) ==
    LET R == S(s)  rows == E.st[s].rows  idx == Slice(NewOrder(s), NewCur(s), Len(NewOrder(s)), R.b) IN
    IF R.name = "param" THEN
         (IF \E k \in DOMAIN Sub(s) : Sub(s)[k] \notin Ids(s) THEN "ParamValueNotFromOwnKey"
          ELSE IF ~BatchOK(NewOrder(s), NewCur(s), R.b, Sub(s)) THEN "BatchNotSliceOfStore"
          ELSE IF E.st[s].shape # <<R.b, 1>> THEN "ParamBatchShape"
          ELSE "ok")
    ELSE IF Len(rows) # R.b THEN "BatchSize"
    ELSE IF \E j \in DOMAIN rows : \E c \in DOMAIN rows[j] : rows[j][c] # rows[j][1] THEN "RowPartsMisaligned"
    ELSE IF \E j \in DOMAIN rows : rows[j][1] # idx[j] THEN "RowNotFromShuffledIndex"
    ELSE IF \E j \in DOMAIN rows : rows[j][1] \notin Ids(s) THEN "RowNotInTable"
    ELSE "ok"

EventVerdict ==
    CASE Prop = "C09" -> FirstBad([s \in 1..NS |-> StoreC09(s)] \o <<Products>>)
      [] Prop = "C08" -> FirstBad([s \in 1..NS |-> StoreC08(s)] \o <<Products, Shapes>>)
      [] Prop = "C14" -> FirstBad(<<Products, Shapes>>)
      [] Prop = "C15" -> FirstBad([s \in 1..NS |-> RowsC15(s)] \o [s \in 1..NS |-> StoreC09(s)]
                                  \o <<IF E.emptyOK THEN "ok" ELSE "MissingNetworkEntryNotEmpty">>)
      [] OTHER -> "UnknownProp"

(* ------------------------------------------------------------------ the monitor *)
Init == /\ tid \in 1..Len(Traces) /\ l = 1
        /\ st = [s \in 1..Len(Traces[tid].stores) |->
                   [order |-> Traces[tid].stores[s].init, cur |-> Traces[tid].stores[s].cur0,
                    \* a generator that already served batches: the cursor is the start of the last served window,
                    \* everything before its end has been served in the running epoch
                    served |-> IF Traces[tid].fresh THEN {}
                               ELSE {Traces[tid].stores[s].init[k] :
                                       k \in {j \in 1..Len(Traces[tid].stores[s].init) :
                                                j <= Traces[tid].stores[s].cur0 + Traces[tid].stores[s].b}}]]
        /\ viol = "ok"
Step == /\ viol = "ok"
        /\ IF l = 1 /\ InitVerdict # "ok"
           THEN viol' = InitVerdict /\ UNCHANGED <<st, l>>
           ELSE /\ l <= Len(T.ev)
                /\ viol' = EventVerdict
                /\ st' = [s \in 1..NS |->
                            [order |-> NewOrder(s), cur |-> NewCur(s),
                             served |-> IF S(s).mode = "static" THEN {}
                                        ELSE NextServed(NewCur(s), Sub(s), st[s].served)]]
                /\ l' = l + 1
        /\ UNCHANGED tid
Spec == Init /\ [][Step]_vars

Report == viol # "ok" =>
            PrintT(ToJson([tag |-> "REJECT", tid |-> tid, ev |-> l - 1, clause |-> viol]))
Done == (viol = "ok" /\ l = Len(T.ev) + 1 /\ InitVerdict = "ok") => TLCSet(1, TLCGet(1) \cup {tid})
Summary == PrintT(ToJson([tag |-> "ACCEPTED", n |-> Cardinality(TLCGet(1)), total |-> Len(Traces)]))
ASSUME TLCSet(1, {})
=============================================================================
