--------------------------- MODULE Trace_Validation ---------------------------
(* Monitor: the real ValidationLoss called directly (outside solve) along a script of loss values emitted by
   TLC from Validation.tla.  After every call the harness logs the module's counter, best value, the two
   flags it returned, the criterion and the state of its own data generator(s). *)
EXTENDS SolveOps, BatchingOps, TLC, TLCExt, Json, IOUtils
Traces == JsonDeserialize(IOEnv.TRACE_FILE)
VARIABLES tid, l, vs, gen, viol
vars == <<tid, l, vs, gen, viol>>
T == Traces[tid]
E == T.ev[l]
GenVerdict(k) ==
    LET G == T.gens[k]  n == Len(G.init) IN
    DrawVerdictG(FALSE, "ge", l = 1, gen[k].order, 1..n, gen[k].cur, G.b, n, {}, E.gens[k].order, E.gens[k].cur,
                 Slice(E.gens[k].order, E.gens[k].cur, n, G.b))
Verdict ==
    IF E.exc # "" THEN "ValidationRaised"
    ELSE IF E.crit # E.value THEN "CriterionNotLossOnOwnBatch"
    ELSE IF E.improved # VLImproved(vs, E.value) THEN "ImprovementFlagWrong"
    ELSE IF E.stop # VLStop(vs, T.patience, T.earlyOn) THEN
            (IF ~T.earlyOn THEN "StopRequestedWhileDisabled" ELSE "StopRequestWrong")
    ELSE IF E.count # VLNext(vs, E.value).count THEN "CounterWrong"
    ELSE IF E.best # VLNext(vs, E.value).best THEN "BestValueWrong"
    ELSE LET gv == SelectSeq([k \in DOMAIN T.gens |-> GenVerdict(k)], LAMBDA v : v # "ok") IN
         IF gv # <<>> THEN "ValidationGenerator" \o Head(gv) ELSE "ok"
Init == /\ tid \in 1..Len(Traces) /\ l = 1 /\ vs = VLInit /\ viol = "ok"
        /\ gen = [k \in DOMAIN Traces[tid].gens |-> [order |-> Traces[tid].gens[k].init, cur |-> Traces[tid].gens[k].cur0]]
Step == /\ viol = "ok" /\ l <= Len(T.ev)
        /\ viol' = Verdict
        /\ vs' = VLNext(vs, E.value)
        /\ gen' = [k \in DOMAIN T.gens |-> [order |-> E.gens[k].order, cur |-> E.gens[k].cur]]
        /\ l' = l + 1 /\ UNCHANGED tid
Spec == Init /\ [][Step]_vars
Report == viol # "ok" => PrintT(ToJson([tag |-> "REJECT", tid |-> tid, ev |-> l - 1, clause |-> viol]))
Done == (viol = "ok" /\ l = Len(T.ev) + 1) => TLCSet(1, TLCGet(1) \cup {tid})
Summary == PrintT(ToJson([tag |-> "ACCEPTED", n |-> Cardinality(TLCGet(1)), total |-> Len(Traces)]))
ASSUME TLCSet(1, {})
=============================================================================
