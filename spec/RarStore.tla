------------------------------ MODULE RarStore ------------------------------
(* Store-level model of one refined axis: point identities in the pre-allocated store, batch
   draws with reshuffles (every permutation the masked shuffle may produce), refinement steps
   choosing the top-residual candidates (every possible top set), interleaved in solver order
   (draw, then trigger_rar).  Checks the content-level clauses of C17 and that every model
   step is accepted by the clause operators used by the trace monitor. *)
EXTENDS RarOps, TLC
CONSTANTS Cap, MaxNStart, MaxSel, Sample, MaxStart, MaxEvery, MaxB, MaxIter
VARIABLES ax, start, every, b, i, since, steps, store, act, cur, nextId,
          cand, rank, s1, act1, stepped
vars == <<ax, start, every, b, i, since, steps, store, act, cur, nextId, cand, rank, s1, act1, stepped>>
BIG == 100000

Init == /\ ax \in {a \in [cap : {Cap}, nstart : 1..MaxNStart, sel : 1..MaxSel] : a.nstart <= a.cap}
        /\ start \in 0..MaxStart /\ every \in 1..MaxEvery /\ b \in 1..MaxB /\ b <= Cap
        /\ i = 0 /\ steps = 0 /\ since = every - 1
        /\ store = [k \in 1..Cap |-> k] /\ act = Prefix(ax.nstart) /\ cur = BIG /\ nextId = Cap + 1
        /\ cand = <<>> /\ rank = <<>> /\ s1 = store /\ act1 = act /\ stepped = FALSE

PermsOf(S) == {p \in [1..Cardinality(S) -> S] : \A x, y \in 1..Cardinality(S) : x # y => p[x] # p[y]}
Reshuffles == {p \o AtSlots(store, (1..Cap) \ act) : p \in PermsOf(ActiveIds(store, act))}
Draws == IF cur = BIG \/ ResetCond("ge", cur, b, NActive(ax, steps))
         THEN {<<p, 0>> : p \in Reshuffles} ELSE {<<store, cur + b>>}
WriteAt(s, off, vals) == [k \in 1..Len(s) |-> IF k > off /\ k <= off + Len(vals) THEN vals[k - off] ELSE s[k]]
Proceed == start <= i /\ since = every - 1 /\ ax.sel <= ax.cap - Cardinality(act)

Iterate ==
    /\ i < MaxIter
    /\ \E d \in Draws :
         /\ cur' = d[2] /\ s1' = d[1] /\ act1' = act
         /\ IF Proceed
            THEN LET C == nextId..(nextId + Sample - 1) IN
                 \E top \in kSubset(ax.sel, C) :
                    /\ cand' = SetToSeq(C)
                    /\ rank' = [k \in 1..Sample |-> IF cand'[k] \in top THEN 2 ELSE 1]
                    /\ store' = WriteAt(d[1], NActive(ax, steps), SetToSeq(top))
                    /\ act' = Prefix(NActive(ax, steps + 1))
                    /\ steps' = steps + 1 /\ since' = 0 /\ nextId' = nextId + Sample /\ stepped' = TRUE
            ELSE /\ store' = d[1] /\ stepped' = FALSE
                 /\ since' = since + (IF i > start THEN 1 ELSE 0)
                 /\ UNCHANGED <<act, steps, nextId, cand, rank>>
    /\ i' = i + 1 /\ UNCHANGED <<ax, start, every, b>>
Next == Iterate
Spec == Init /\ [][Next]_vars

(* ---- C16 / C17 at content level ---- *)
ActiveCount == CountVerdict(ax, steps, act) = "ok"
OnSchedule == [][ stepped' <=> StepExpected(i, start, every, <<ax>>, steps) ]_vars
ActivePointsSurvive == [][ ActiveIds(store, act) \subseteq ActiveIds(store', act') ]_vars
OnlyInactiveOverwritten ==
    [][ stepped' => \A k \in 1..Cap : store'[k] # s1'[k] => k \notin act ]_vars
AddedAreTopResidual ==
    stepped => LET added == {store[k] : k \in Window(ax, steps - 1)} IN
               \A c \in added, d \in SeqRange(cand) \ added : Rank(cand, rank, c) >= Rank(cand, rank, d)
StoreKeepsOtherPoints ==      \* a draw only permutes: the multiset changes by refinement steps only
    [][ ~stepped' => SameBag(store', store) ]_vars
MonitorAgrees ==
    [][ /\ DrawVerdictG(FALSE, "ge", cur = BIG, store, act, cur, b, NActive(ax, steps), {}, s1', cur', Slice(s1', cur', Cap, b)) = "ok"
        /\ ScheduleVerdict(i, start, every, <<ax>>, steps, stepped') = "ok"
        /\ (stepped' => /\ AxisStepVerdict(ax, steps, s1', act1', store', act', cand', rank', <<>>) = "ok"
                        /\ TopVerdict(ax, steps, store', cand', rank') = "ok")
        /\ (~stepped' => NoStepVerdict(s1', act1', store', act') = "ok")
        /\ CountVerdict(ax, steps', act') = "ok" ]_vars
=============================================================================
