----------------------------- MODULE MC_Operators -----------------------------
(* Configuration space of C01 as a TLC state space: one initial state per configuration
   (spatial dimension, with/without time, operator, monomial of the determining basis of
   total degree <= MaxDeg placed in one output component over a time-dependent background
   field, evaluation points, value of an unrelated parameter).  Every state is emitted as JSON
   and replayed into jinns' operators; the invariants are lemmas of the oracle itself. *)
EXTENDS Operators, TLC, Json
CONSTANTS MaxDim, MaxDeg, NPts
VARIABLES cfg
NV(c) == c.dim + (IF c.withT THEN 1 ELSE 0)
XS(c) == [k \in 1..c.dim |-> k + (IF c.withT THEN 1 ELSE 0)]
Ops == {"lap", "div", "veclap", "adv"}
NOut(c) == IF c.op = "lap" THEN 1 ELSE c.dim
Configs ==
    UNION {UNION {[dim : {d}, withT : {w}, op : {o \in Ops : o = "adv" => d = 2},
                   comp : 1..d, mono : Monomials(d + (IF w THEN 1 ELSE 0), MaxDeg), junk : {1, 5}]
                  : w \in BOOLEAN} : d \in 1..MaxDim}
Valid(c) == c.comp <= NOut(c)
Mono(c) == << [c |-> 1, e |-> c.mono] >>
(* a background field in the other components: depends on time and on every coordinate *)
Back(c, j) == FoldLeft(LAMBDA acc, k : Add(acc, Scale(j + k, Var(XS(c)[k], NV(c)))),
                       IF c.withT THEN Scale(j, Var(1, NV(c))) ELSE Const(j, NV(c)), [k \in 1..c.dim |-> k])
Fields(c) == [j \in 1..NOut(c) |-> IF j = c.comp THEN Add(Mono(c), IF c.op = "adv" THEN Back(c, j) ELSE <<>>) ELSE Back(c, j)]
Points(c) == [p \in 1..NPts |-> [i \in 1..NV(c) |-> IF c.withT /\ i = 1 THEN p % 3 ELSE ((p * 7 + i * 3) % 5) - 2]]
Full(c) == [kind |-> "operator", op |-> c.op, dim |-> c.dim, withT |-> c.withT, fields |-> Fields(c), pts |-> Points(c),
            junk |-> c.junk, src |-> "tlc"]
Init == cfg \in {c \in Configs : Valid(c)}
Next == UNCHANGED cfg
Spec == Init /\ [][Next]_cfg
Emit == PrintT(ToJson(Full(cfg)))
(* lemmas of the oracle (sanity of the specification itself) *)
DivGradIsLap == \A p \in 1..NPts :
    LET u == Mono(cfg)  g == [k \in 1..cfg.dim |-> D(u, XS(cfg)[k])] IN
    DivAt(g, XS(cfg), Points(cfg)[p]) = LapAt(u, XS(cfg), Points(cfg)[p])
LapIgnoresTime == cfg.withT =>
    \A p \in 1..NPts : LapAt(Mul(Mono(cfg), Var(1, NV(cfg))), XS(cfg), Points(cfg)[p])
                       = Points(cfg)[p][1] * LapAt(Mono(cfg), XS(cfg), Points(cfg)[p])
=============================================================================
