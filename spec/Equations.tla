------------------------------ MODULE Equations ------------------------------
(* The residuals of jinns' built-in dynamic losses (jinns/loss/_DynamicLoss.py) as written in their
   documentation, on exact polynomial candidates.  Every parameter has its own role, Tmax rescales
   the spatial part.  Values are exact rationals.
     r.eq     "burgers" | "fisher" | "ou" | "masscons" | "ns" | "glv"
     r.U      the candidate solution(s): polynomials over (t, x...) or (x...) - one per output / network
     r.P      pressure polynomial (ns)
     r.par    parameters as rationals [n, d] (see each equation)
     r.Tmax   integer                                                                      *)
EXTENDS Operators
Q(p) == QN(p.n, p.d)
E(p, pt) == QI(Eval(p, pt))
(* u_t + Tmax (u u_x - nu u_xx), 1-D *)
Burgers(r, pt) == LET u == r.U[1] IN
    QAdd(E(D(u, 1), pt), QMul(QI(r.Tmax), QSub(QMul(E(u, pt), E(D(u, 2), pt)), QMul(Q(r.par.nu), E(D(D(u, 2), 2), pt)))))
(* u_t + Tmax (-D Lap u - u (r - g u)) *)
Fisher(r, pt) == LET u == r.U[1]  X == [k \in 1..r.dim |-> k + 1] IN
    QAdd(E(D(u, 1), pt),
         QMul(QI(r.Tmax), QSub(QNeg(QMul(Q(r.par.D), QI(LapAt(u, X, pt)))),
                               QMul(E(u, pt), QSub(Q(r.par.r), QMul(Q(r.par.g), E(u, pt)))))))
(* -u_t + Tmax ( - sum_i d_i[alpha_i (mu_i - x_i) u] + sum_i (sigma_i^2 / 2) d_ii u ), 2-D, diagonal sigma *)
OU(r, pt) == LET u == r.U[1] IN
    LET drift(i) == QMul(Q(r.par.alpha[i]),
                         QAdd(QNeg(E(u, pt)), QMul(QSub(Q(r.par.mu[i]), QI(pt[i + 1])), E(D(u, i + 1), pt))))
        diff(i) == QMul(QDiv(QSq(Q(r.par.sigma[i])), QI(2)), E(D(D(u, i + 1), i + 1), pt)) IN
    QAdd(QNeg(E(D(u, 1), pt)),
         QMul(QI(r.Tmax), QAdd(QNeg(QAdd(drift(1), drift(2))), QAdd(diff(1), diff(2)))))
(* div u, 2-D stationary *)
MassCons(r, pt) == QI(DivAt(r.U, <<1, 2>>, pt))
(* (u . grad) u + (1 / rho) grad p - nu Lap u, 2-D stationary *)
NS(r, pt, k) == QAdd(QI(AdvAt(r.U, <<1, 2>>, pt)[k]),
                     QSub(QDiv(E(D(r.P, k), pt), Q(r.par.rho)), QMul(Q(r.par.nu), QI(LapAt(r.U[k], <<1, 2>>, pt)))))
(* generalized Lotka-Volterra in log form, for the species r.U[1] (key_main), others in keys_other order:
   d/dt log u_1 + Tmax (-growth - sum_j a[pos(j)] u_j + c sum_j u_j),  pos(main) = 1, pos(other k) = k + 1 *)
GLV(r, pt) == LET u == r.U[1] IN
    QAdd(QDiv(E(D(u, 1), pt), E(u, pt)),
         QMul(QI(r.Tmax),
              QAdd(QNeg(Q(r.par.growth)),
                   QAdd(QNeg(QSum([j \in DOMAIN r.U |-> QMul(Q(r.par.inter[j]), E(r.U[j], pt))])),
                        QMul(Q(r.par.carry), QSum([j \in DOMAIN r.U |-> E(r.U[j], pt)]))))))
Residual(r, pt) ==
    CASE r.eq = "burgers"  -> <<Burgers(r, pt)>>
      [] r.eq = "fisher"   -> <<Fisher(r, pt)>>
      [] r.eq = "ou"       -> <<OU(r, pt)>>
      [] r.eq = "masscons" -> <<MassCons(r, pt)>>
      [] r.eq = "ns"       -> <<NS(r, pt, 1), NS(r, pt, 2)>>
      [] r.eq = "glv"      -> <<GLV(r, pt)>>
=============================================================================
