------------------------------ MODULE Validation ------------------------------
(* The built-in ValidationLoss (jinns/validation/_validation.py) as a state machine over the sequence of
   validation-loss values it observes: counter / best value / patience / early-stopping switch, and its own
   data generator whose cursor advances exactly once per invocation.  All value scripts up to MaxLen over
   1..MaxVal are explored; every maximal script is emitted and replayed by calling the real module directly. *)
EXTENDS SolveOps, TLC, Json
CONSTANTS MaxLen, MaxVal, MaxPatience, EmitScenarios
VARIABLES patience, earlyOn, vs, vals, flags, draws
vars == <<patience, earlyOn, vs, vals, flags, draws>>
Init == /\ patience \in 0..MaxPatience /\ earlyOn \in BOOLEAN
        /\ vs = VLInit /\ vals = <<>> /\ flags = <<>> /\ draws = 0
Call(v) == /\ Len(vals) < MaxLen
           /\ flags' = Append(flags, [improved |-> VLImproved(vs, v), stop |-> VLStop(vs, patience, earlyOn)])
           /\ vs' = VLNext(vs, v) /\ vals' = Append(vals, v) /\ draws' = draws + 1
           /\ UNCHANGED <<patience, earlyOn>>
Next == \E v \in 1..MaxVal : Call(v)
Spec == Init /\ [][Next]_vars
Min(S) == CHOOSE x \in S : \A y \in S : x <= y
(* improvement exactly on a strict new minimum of the values seen so far *)
ImprovementIffStrictMinimum ==
    \A k \in DOMAIN vals : flags[k].improved <=> (k = 1 \/ vals[k] < Min({vals[j] : j \in 1..(k - 1)}))
(* a stop is requested at invocation k iff early stopping is enabled and the `patience` invocations before k
   did not improve, counted since the last improvement (the old counter is compared with patience) *)
NonImprovingRun(k) ==      \* number of consecutive non-improving invocations immediately before k
    LET imp == {j \in 1..(k - 1) : flags[j].improved} IN
    IF imp = {} THEN k - 1 ELSE (k - 1) - (CHOOSE j \in imp : \A i \in imp : i <= j)
StopIffPatienceExhausted == \A k \in DOMAIN vals : flags[k].stop <=> (earlyOn /\ NonImprovingRun(k) = patience)
NeverStopsWhenDisabled == ~earlyOn => \A k \in DOMAIN flags : ~flags[k].stop
BestIsMinimum == vals # <<>> => vs.best = Min({vals[j] : j \in DOMAIN vals})
OneDrawPerInvocation == draws = Len(vals)
Emit == (EmitScenarios /\ Len(vals) = MaxLen) =>
           PrintT(ToJson([kind |-> "vl_script", patience |-> patience, earlyOn |-> earlyOn, vals |-> vals]))
=============================================================================
