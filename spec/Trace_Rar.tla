------------------------------ MODULE Trace_Rar ------------------------------
(* Trace monitor for residual-adaptive refinement.  Each trace is the history of one generator
   driven in solver order (get_batch, then trigger_rar(i)), either directly through the public
   pieces init_rar / trigger_rar or end-to-end through jinns.solve (hook H2).  Every event
   carries the generator state after the draw and after trigger_rar, and - on refinement steps -
   the candidates reported by hook H1 with the rank of their squared residual as recomputed
   by the driver from the crafted landscape.  Prop selects the clauses of C16 or C17. *)
EXTENDS RarOps, TLC, TLCExt, Json, IOUtils
CONSTANT Prop
Traces == JsonDeserialize(IOEnv.TRACE_FILE)
VARIABLES tid, l, st, steps, viol
vars == <<tid, l, st, steps, viol>>
T == Traces[tid]
E == T.ev[l]
NA == Len(T.axes)
Ax(a) == [cap |-> T.axes[a].cap, nstart |-> T.axes[a].nstart, sel |-> T.axes[a].sel]
AxesSeq == [a \in 1..NA |-> Ax(a)]
ActOfMask(m) == {k \in 1..Len(m) : m[k]}
FirstBad(seq) == LET bad == SelectSeq(seq, LAMBDA v : v # "ok") IN IF bad = <<>> THEN "ok" ELSE Head(bad)

DrawV(a) ==
    IF ~T.hasDraw THEN "ok" ELSE
    DrawVerdictG(FALSE, "ge", l = 1 /\ T.fresh, st[a].order, st[a].act, st[a].cur, T.axes[a].b, NActive(Ax(a), steps), {},
                 E.draw[a].order, E.draw[a].cur, Slice(E.draw[a].order, E.draw[a].cur, Len(E.draw[a].order), T.axes[a].b))
S1(a) == IF T.hasDraw THEN E.draw[a].order ELSE st[a].order
StepV(a) == AxisStepVerdict(Ax(a), steps, S1(a), st[a].act, E.after[a].order, ActOfMask(E.after[a].mask),
                            E.after[a].cand, E.after[a].rank, E.after[a].candIn)
TopV == IF NA = 1 THEN TopVerdict(Ax(1), steps, E.after[1].order, E.after[1].cand, E.after[1].rank)
        ELSE PairTopVerdict(Ax(1), Ax(2), steps, E.after[1].order, E.after[2].order, E.after[1].cand, E.after[2].cand, E.pairs)
NoStepV(a) == NoStepVerdict(S1(a), st[a].act, E.after[a].order, ActOfMask(E.after[a].mask))
CounterV == IF E.steps # steps + (IF E.stepped THEN 1 ELSE 0) THEN "StepCounterWrong" ELSE "ok"

RetV == IF l = Len(T.ev) /\ ~T.retOK THEN "ReturnedGeneratorStale" ELSE "ok"
EventVerdict ==
    CASE Prop = "C16" ->
           FirstBad(<<RetV, ScheduleVerdict(E.i, T.start, T.every, AxesSeq, steps, E.stepped), CounterV>>
                    \o [a \in 1..NA |-> CountVerdict(Ax(a), E.steps, ActOfMask(E.after[a].mask))])
      [] Prop = "C17" ->
           FirstBad([a \in 1..NA |-> DrawV(a)]
                    \o (IF E.stepped /\ E.hooked THEN [a \in 1..NA |-> StepV(a)] \o <<TopV>>
                        ELSE IF E.stepped THEN <<"HookEventMissing">>
                        ELSE [a \in 1..NA |-> NoStepV(a)]))
      [] Prop = "C09" ->       \* only the draw clauses: batches served while the store is being refined (active count grows)
           FirstBad([a \in 1..NA |-> DrawV(a)])
      [] OTHER -> "UnknownProp"

Init == /\ tid \in 1..Len(Traces) /\ l = 1 /\ viol = "ok"
        /\ steps = Traces[tid].steps0      \* refinement steps done by earlier training calls on this generator
        /\ st = [a \in 1..Len(Traces[tid].axes) |->
                   [order |-> Traces[tid].axes[a].init, cur |-> Traces[tid].axes[a].cur0,
                    act |-> ActOfMask(Traces[tid].axes[a].mask0)]]
Step == /\ viol = "ok" /\ l <= Len(T.ev)
        /\ viol' = EventVerdict
        /\ st' = [a \in 1..NA |-> [order |-> E.after[a].order,
                                   cur |-> IF T.hasDraw THEN E.draw[a].cur ELSE st[a].cur,
                                   act |-> ActOfMask(E.after[a].mask)]]
        /\ steps' = E.steps
        /\ l' = l + 1 /\ UNCHANGED tid
Spec == Init /\ [][Step]_vars
Report == viol # "ok" => PrintT(ToJson([tag |-> "REJECT", tid |-> tid, ev |-> l - 1, clause |-> viol]))
Done == (viol = "ok" /\ l = Len(T.ev) + 1) => TLCSet(1, TLCGet(1) \cup {tid})
Summary == PrintT(ToJson([tag |-> "ACCEPTED", n |-> Cardinality(TLCGet(1)), total |-> Len(Traces)]))
ASSUME TLCSet(1, {})
=============================================================================
