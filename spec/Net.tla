--------------------------------- MODULE Net ---------------------------------
(* Calling and output conventions of the network wrappers (jinns/utils/_pinn.py, _spinn.py,
   _hyperpinn.py) on networks with integer weights and activations identity / square, so that every
   value is an exact integer.
     layers      sequence of [W (rows), b, act]            a multi-layer perceptron
     PINN        u(in, params) = Slice(OT(in, net(IT(in, params)), params)), always rank >= 1
     SPINN       out[i_1..i_d][m] = sum_{k=1..r} prod_d f_d(x_{i_d})[(m-1) r + k]
     HYPERPINN   inner weights = hyper(theta), split by cumulative leaf sizes in leaf order (weight, bias per
                 layer), reshaped row-major                                                          *)
EXTENDS Prelude
Dot(a, b) == SumSeq([k \in DOMAIN a |-> a[k] * b[k]])
Act(a, v) == IF a = "sq" THEN v * v ELSE v
Layer(L, x) == [j \in DOMAIN L.W |-> Act(L.act, Dot(L.W[j], x) + L.b[j])]
RECURSIVE Forward(_, _)
Forward(layers, x) == IF layers = <<>> THEN x ELSE Forward(Tail(layers), Layer(Head(layers), x))

(* ---- PINN ---- *)
InputT(r, in) == IF r.it = "shift" THEN [k \in DOMAIN in |-> in[k] + r.th[1]] ELSE in
(* the output transform mixes the components (it does not commute with slicing): out_k * th2 + in_1 + sum(out) *)
OutputT(r, in, out) == IF r.ot = "scale" THEN [k \in DOMAIN out |-> out[k] * r.th[2] + in[1] + SumSeq(out)] ELSE out
PinnEval(r, in) == LET full == OutputT(r, in, Forward(r.layers, InputT(r, in))) IN
                   IF r.oslice = <<>> THEN full ELSE SubSeq(full, r.oslice[1], r.oslice[2])

(* ---- SPINN: r.mlps[d] = layers of the d-th separated network (1 -> R*M); r.xs[d] = the batch column d ---- *)
SpinnFeat(r, d, x) == Forward(r.mlps[d], <<x>>)
SpinnAt(r, idx, m) ==      \* idx: sequence of batch indices, one per dimension
    SumSeq([k \in 1..r.R |-> ProdSeq([d \in DOMAIN r.mlps |-> SpinnFeat(r, d, r.xs[d][idx[d]])[(m - 1) * r.R + k]])])

(* ---- HYPERPINN: r.hyper = layers of the hyper-network, r.hth = values of the designated parameters (in order),
        r.inner = [shape of each inner layer: [out, in, act]] ---- *)
HyperFlat(r) == Forward(r.hyper, r.hth)
RECURSIVE InnerLayers(_, _, _)
InnerLayers(flat, shapes, off) ==
    IF shapes = <<>> THEN <<>>
    ELSE LET s == Head(shapes)
             W == [j \in 1..s.o |-> [k \in 1..s.i |-> flat[off + (j - 1) * s.i + k]]]      \* row-major reshape
             b == [j \in 1..s.o |-> flat[off + s.o * s.i + j]] IN
         <<[W |-> W, b |-> b, act |-> s.act]>> \o InnerLayers(flat, Tail(shapes), off + s.o * s.i + s.o)
HyperEval(r, in) == LET layers == InnerLayers(HyperFlat(r), r.inner, 0)
                        full == OutputT(r, in, Forward(layers, InputT(r, in))) IN
                    IF r.oslice = <<>> THEN full ELSE SubSeq(full, r.oslice[1], r.oslice[2])
=============================================================================
