------------------------------ MODULE Contracts ------------------------------
(* Construction-time and call-time CONTRACTS of jinns that the listed properties presuppose: which
   configurations the constructors of the generators / loaders accept, how they normalise them, and the
   batch-size compatibility that solve() demands between the main generator and the auxiliary ones.
   TLC enumerates a small configuration space; the harness tries each configuration on the real code and
   the monitor (Trace_Contracts) compares accept / reject and the normalised attributes. *)
EXTENDS Naturals, Sequences, FiniteSets, TLC, Json
VARIABLES cfg

(* ---- CubicMeshPDEStatio / CubicMeshPDENonStatio ---- *)
PdeCfgs == [kind : {"pde"}, nonstatio : BOOLEAN, dim : 1..2, n : {4, 6, 9}, b : {2, 4}, hasBorder : BOOLEAN, nb : {2, 3, 4, 6, 8, 12}, bb : 1..3,
            cart : BOOLEAN, nt : {4}, bt : {2, 3}, method : {"uniform", "grid"}, rar : BOOLEAN, nstartGiven : BOOLEAN]
PdeAccepts(c) ==
    /\ (c.hasBorder /\ c.dim = 2 => c.nb % 4 = 0 /\ c.nb >= 4 /\ c.nb \div 4 >= c.bb)
    /\ (c.nonstatio /\ ~c.cart => c.bt = c.b /\ (c.dim = 2 /\ c.hasBorder => c.bt = c.bb))
    /\ (c.method = "grid" /\ c.dim = 2 => c.n \in {4, 9})                 \* the 2-D grid needs a square number of points
    /\ (c.rar => c.nstartGiven)
(* what the constructor stores: number of border points and border batch size *)
PdeNb(c) == IF ~c.hasBorder THEN 0 ELSE IF c.dim = 1 THEN 2 ELSE 4 * (c.nb \div 4)
PdeBb(c) == IF ~c.hasBorder THEN 0 ELSE IF c.dim = 1 THEN 2 ELSE c.bb

(* ---- DataGeneratorParameter / DataGeneratorObservations ---- *)
ParamCfgs == [kind : {"param"}, n : {2, 4}, b : {1, 2, 4, 6}, tshape : {"n", "n1", "n2", "wrong"}, withRange : BOOLEAN]
ParamAccepts(c) == c.b <= c.n /\ c.tshape \in {"n", "n1"}
ObsCfgs == [kind : {"obs"}, nin : {3, 4}, nval : {3, 4}, neq : {0, 3, 4}, inDims : 1..3]
ObsAccepts(c) == c.nin = c.nval /\ (c.neq = 0 \/ c.neq = c.nin) /\ c.inDims <= 2

(* ---- solve(): auxiliary generators must serve as many rows as the main batch ---- *)
SolveCfgs == [kind : {"solve"}, main : {"ode", "statio", "nonstatio"}, cart : BOOLEAN, bt : {2, 4}, bx : {2, 3}, aux : {"param", "obs"}, bo : {2, 3, 4, 6, 8, 12}]
MainRows(c) == IF c.main = "ode" THEN c.bt ELSE IF c.main = "statio" THEN c.bx
               ELSE IF c.cart THEN c.bt * c.bx ELSE c.bt        \* paired mode: one row per time / point pair
SolveOK(c) == (c.main = "nonstatio" /\ ~c.cart => c.bt = c.bx) \* constructor requirement of the paired mode (else not generated)
SolveAccepts(c) == c.bo = MainRows(c)

Space == {c \in PdeCfgs : (c.nonstatio \/ (c.cart /\ c.bt = 2)) /\ (c.hasBorder \/ (c.nb = 4 /\ c.bb = 1)) /\ (c.rar \/ c.nstartGiven)}
         \cup ParamCfgs \cup ObsCfgs \cup {c \in SolveCfgs : SolveOK(c) /\ (c.main = "nonstatio" \/ c.cart)}
Expected(c) == CASE c.kind = "pde" -> [accept |-> PdeAccepts(c), nb |-> PdeNb(c), bb |-> PdeBb(c)]
                 [] c.kind = "param" -> [accept |-> ParamAccepts(c), nb |-> 0, bb |-> 0]
                 [] c.kind = "obs" -> [accept |-> ObsAccepts(c), nb |-> 0, bb |-> 0]
                 [] c.kind = "solve" -> [accept |-> SolveAccepts(c), nb |-> 0, bb |-> 0]
Init == cfg \in Space
Next == UNCHANGED cfg
Spec == Init /\ [][Next]_cfg
Emit == PrintT(ToJson([kind |-> "contract", c |-> cfg, exp |-> Expected(cfg)]))
=============================================================================
