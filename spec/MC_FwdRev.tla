------------------------------ MODULE MC_FwdRev ------------------------------
(* Structural configuration space of C11: operator / built-in equation x dimensions (time first) x embedding
   size x outputs x batch size per axis (including batches smaller than the dimension). *)
EXTENDS Naturals, Sequences, FiniteSets, TLC, Json
CONSTANT Sel      \* "all" (C11), "operators" (forward-mode side of C01), "equations" (forward-mode side of C02)
VARIABLES cfg
OperatorOps == {"lap", "div", "veclap", "veclapdef", "adv"}
EquationOps == {"masscons", "burgers", "fisher", "ou", "ns"}
Ops == CASE Sel = "operators" -> OperatorOps [] Sel = "equations" -> EquationOps [] OTHER -> OperatorOps \cup EquationOps
All == [kind : {"fr_struct"}, op : Ops, d : 1..3, withT : BOOLEAN, R : 1..2, M : 1..3, b : 1..3, deg : 1..2, Tmax : {1, 2}]
NS(c) == c.d - (IF c.withT THEN 1 ELSE 0)          \* number of spatial dimensions
OK(c) == /\ NS(c) >= 1
         /\ (c.M = 3 => c.op \in {"div", "veclapdef", "veclap"} /\ c.R = 1)
         /\ (c.op = "lap" => c.M = 1)
         /\ (c.op = "div" => c.M = NS(c))
         /\ (c.op = "veclapdef" => c.M = NS(c))          \* default u_vec_ndim: as many components as spatial dimensions
         /\ (c.op = "adv" => NS(c) = 2 /\ c.M = 2)
         /\ (c.op = "masscons" => ~c.withT /\ c.d = 2 /\ c.M = 2)
         /\ (c.op = "burgers" => c.withT /\ c.d = 2 /\ c.M = 1)
         /\ (c.op = "fisher" => c.withT /\ c.M = 1)
         /\ (c.op = "ou" => c.withT /\ c.d = 3 /\ c.M = 1)
         /\ (c.op = "ns" => ~c.withT /\ c.d = 2 /\ c.M = 2)
         /\ (c.op \notin {"burgers", "fisher", "ou"} => c.Tmax = 1)
         /\ (c.d = 3 => c.b <= 2 /\ (c.deg = 1 \/ c.R = 1))     \* degree-2 features in 3 dimensions (second derivatives do not vanish) with one embedding term
Init == cfg \in {c \in All : OK(c)}
Next == UNCHANGED cfg
Spec == Init /\ [][Next]_cfg
Emit == PrintT(ToJson(cfg))
=============================================================================
