----------------------------- MODULE DataGenOps -----------------------------
(* Pure operators for the generators built from several stores
   (CubicMeshPDEStatio / CubicMeshPDENonStatio / DataGeneratorObservations /
   DataGeneratorParameter / DataGeneratorObservationsMultiPINNs): how a batch is assembled
   from the sub-batches of one get_batch call, and the shapes the documentation declares. *)
EXTENDS BatchingOps

(* make_cartesian_product(t, x): every (t_i, x_j) exactly once, time-major *)
Cartesian(t, x) ==
    [k \in 1..(Len(t) * Len(x)) |-> <<t[((k - 1) \div Len(x)) + 1], x[((k - 1) % Len(x)) + 1]>>]
(* cartesian_product = False: row i pairs time i with spatial point i *)
Paired(t, x) == [k \in 1..Len(t) |-> <<t[k], x[k]>>]

InsideRows(cart, tb, xb) == IF cart THEN Cartesian(tb, xb) ELSE Paired(tb, xb)
(* In 1-D the border is the constant pair (xmin, xmax): always a product *)
BorderRows(cart, dim, tb, bb) == IF cart \/ dim = 1 THEN Cartesian(tb, bb) ELSE Paired(tb, bb)

(* "every pair appears exactly once" written independently of the construction above *)
ExactlyOnce(rows, tb, xb) ==
    /\ Len(rows) = Len(tb) * Len(xb)
    /\ \A i \in DOMAIN tb, j \in DOMAIN xb :
          Cardinality({k \in DOMAIN rows : rows[k] = <<tb[i], xb[j]>>}) >= 1
TimeMajor(rows, tb, xb) ==
    \A k \in DOMAIN rows : rows[k][1] = tb[((k - 1) \div Len(xb)) + 1]

(* ---- declared shapes ---- *)
StoreShape(kind, name, n, dim) ==
    CASE name = "times"  -> <<n>>
      [] name = "omega"  -> <<n, dim>>
      [] name = "border" -> IF dim = 1 THEN <<2>> ELSE <<n, dim, 2 * dim>>
      [] name = "param"  -> <<n, 1>>
      [] OTHER           -> <<n>>

OdeBatchShape(bt) == <<bt>>
StatioInsideShape(bx, dim) == <<bx, dim>>
StatioBorderShape(bb, dim) == IF dim = 1 THEN <<1, 1, 2>> ELSE <<bb, dim, 2 * dim>>
NonStatioInsideShape(cart, bt, bx, dim) == IF cart THEN <<bt * bx, 1 + dim>> ELSE <<bt, 1 + dim>>
NonStatioBorderShape(cart, bt, bb, dim) ==
    IF dim = 1 THEN <<bt, 2, 2>>
    ELSE IF cart THEN <<bt * bb, 1 + dim, 2 * dim>> ELSE <<bt, 1 + dim, 2 * dim>>
=============================================================================
