------------------------------- MODULE RarOps -------------------------------
(* Pure operators of residual-adaptive refinement (jinns/solver/_rar.py: _proceed_to_rar,
   rar_step_true / rar_step_false, trigger_rar) shared by the model-checked modules Rar /
   RarStore and by the monitor Trace_Rar.

   An "axis" is one refined store (times and/or omega):
       [cap: slots pre-allocated, nstart: slots active at the beginning,
        sel: points added per step, sample: candidates per step]                      *)
EXTENDS BatchingOps

Scheduled(i, start, every) == i >= start /\ (i - start) % every = 0
NActive(ax, steps) == ax.nstart + steps * ax.sel
HasRoom(ax, steps) == NActive(ax, steps + 1) <= ax.cap
Window(ax, steps) == (NActive(ax, steps) + 1)..NActive(ax, steps + 1)
Prefix(k) == 1..k

(* C16: a step happens at iteration i iff i is on the schedule and every refined axis can
   still hold a full set of new points. *)
StepExpected(i, start, every, axes, steps) ==
    Scheduled(i, start, every) /\ \A a \in DOMAIN axes : HasRoom(axes[a], steps)

ScheduleVerdict(i, start, every, axes, steps, stepped) ==
    IF stepped /\ i < start THEN "StepBeforeStart"
    ELSE IF stepped /\ ~Scheduled(i, start, every) THEN "StepOffSchedule"
    ELSE IF stepped /\ \E a \in DOMAIN axes : ~HasRoom(axes[a], steps) THEN "StepWithoutRoom"
    ELSE IF ~stepped /\ StepExpected(i, start, every, axes, steps) THEN "MissedScheduledStep"
    ELSE "ok"

CountVerdict(ax, steps2, act2) ==
    IF NActive(ax, steps2) > ax.cap THEN "ActiveCountExceedsStore"
    ELSE IF Cardinality(act2) # NActive(ax, steps2) THEN "ActiveCountWrong"
    ELSE IF act2 # Prefix(NActive(ax, steps2)) THEN "ActiveSlotsNotPrefix"
    ELSE "ok"

Rank(cand, rank, v) == rank[CHOOSE k \in DOMAIN cand : cand[k] = v]

(* C17 for one axis whose candidates are ranked directly (ODE, stationary):
   s1/act1 = store and active slots before the step (after the draw), s2/act2 after. *)
AxisStepVerdict(ax, steps, s1, act1, s2, act2, cand, rank, candIn) ==
    LET win == Window(ax, steps)
        added == {s2[k] : k \in win \cap DOMAIN s2} IN
    IF ~(win \subseteq DOMAIN s2) THEN "WindowOutsideStore"
    ELSE IF \E k \in act1 : s2[k] # s1[k] THEN "ActiveSlotOverwritten"
    ELSE IF \E k \in (DOMAIN s2) \ win : s2[k] # s1[k] THEN "WroteOutsideWindow"
    ELSE IF \E k \in DOMAIN candIn : ~candIn[k] THEN "CandidateOutsideDomain"
    ELSE IF ~(added \subseteq SeqRange(cand)) THEN "AddedNotCandidates"
    ELSE IF ~(ActiveIds(s1, act1) \subseteq ActiveIds(s2, act2)) THEN "ActivePointDropped"
    ELSE IF ~(added \subseteq ActiveIds(s2, act2)) THEN "AddedPointsNotActive"
    ELSE "ok"

TopVerdict(ax, steps, s2, cand, rank) ==
    LET win == Window(ax, steps)
        added == {s2[k] : k \in win \cap DOMAIN s2} IN
    IF Cardinality(added) # ax.sel THEN "AddedNotDistinctCandidates"
    ELSE IF ~(added \subseteq SeqRange(cand)) THEN "AddedNotCandidates"          \* (total: Rank is only defined on candidates)
    ELSE IF \E c \in added, d \in SeqRange(cand) \ added : Rank(cand, rank, c) < Rank(cand, rank, d)
         THEN "AddedNotTopResidual"
    ELSE "ok"

(* product domains: candidates are (time, space) pairs, pr[t][x] = rank of the pair's squared
   residual (tie-free); the added times are the time components of the sel_t best pairs, the
   added space points the space components of the sel_x best pairs. *)
PairsAbove(pr, t, x) == Cardinality({<<a, b>> \in (DOMAIN pr) \X (DOMAIN pr[1]) : pr[a][b] > pr[t][x]})
TopPairs(pr, k) == {<<a, b>> \in (DOMAIN pr) \X (DOMAIN pr[1]) : PairsAbove(pr, a, b) < k}
PairTopVerdict(axT, axX, steps, t2, x2, candT, candX, pr) ==
    LET winT == Window(axT, steps) \cap DOMAIN t2  winX == Window(axX, steps) \cap DOMAIN x2
        topT == TopPairs(pr, axT.sel)  topX == TopPairs(pr, axX.sel) IN
    IF \E v \in {candT[p[1]] : p \in topT} \cup {t2[k] : k \in winT} :
           Cardinality({k \in winT : t2[k] = v}) # Cardinality({p \in topT : candT[p[1]] = v})
       THEN "AddedTimesNotTopPairs"
    ELSE IF \E v \in {candX[p[2]] : p \in topX} \cup {x2[k] : k \in winX} :
           Cardinality({k \in winX : x2[k] = v}) # Cardinality({p \in topX : candX[p[2]] = v})
       THEN "AddedPointsNotTopPairs"
    ELSE "ok"

NoStepVerdict(s1, act1, s2, act2) ==
    IF s2 # s1 THEN "StoreChangedWithoutStep"
    ELSE IF act2 # act1 THEN "MaskChangedWithoutStep"
    ELSE "ok"
=============================================================================
