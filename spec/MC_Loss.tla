------------------------------- MODULE MC_Loss -------------------------------
(* STRUCTURAL configuration spaces of the loss-term properties, enumerated by TLC (one state per
   configuration, emitted as JSON).  The harness instantiates each structure with numeric content
   (polynomial networks, residual maps, integer batches - harness/lossrec.py) and evaluates the
   real jinns loss; Trace_Func recomputes the expected terms with LossSemantics.
     C03  total = sum of terms, dynamic term, twins (permuted / halves / re-weighted batch)
     C04  boundary term: every per-facet assignment of {none, dirichlet, neumann}
     C05  initial-condition / normalisation / observation terms
     C12  every subset of batched equation parameters                                        *)
EXTENDS Naturals, Sequences, FiniteSets, TLC, Json
CONSTANTS Family, MaxB
VARIABLES cfg
LKinds == {"ode", "statio", "nonstatio"}
Bs == {b \in {1, 2, 4, 8} : b <= MaxB}
ExtrasOf(lk) == IF lk = "ode" THEN SUBSET {"ic", "obs"}
                ELSE IF lk = "statio" THEN SUBSET {"norm", "bnd", "obs"}
                ELSE SUBSET {"ic", "norm", "bnd", "obs"}
C03 == UNION {[kind : {"loss_struct"}, family : {"C03"}, lkind : {lk}, nres : 1..3, wform : {"scalar", "vector"}, b : Bs,
               extras : ExtrasOf(lk), twin : {"base", "perm", "halfA", "halfB", "rew"}, call : {"evaluate", "call", "reweighted"}, dyn : BOOLEAN,
               rshape : {"array", "scalar"}]
              : lk \in LKinds}
C03ok(c) == /\ (c.twin \in {"halfA", "halfB"} => c.b >= 2)
            /\ (c.call # "evaluate" => c.twin = "base")      \* "reweighted": the loss is built with a zero dynamic weight, the weights are then
                                                             \* replaced on the object (eqx.tree_at, as documented) before the evaluation
            /\ (~c.dyn => c.twin = "base" /\ c.nres = 1 /\ c.wform = "scalar" /\ c.b = 2)
            /\ (c.twin # "base" => c.extras = {})           \* twins concern the dynamic term only
            /\ (c.rshape = "scalar" => c.nres = 1 /\ c.dyn /\ c.wform = "scalar" /\ c.extras = {})   \* a one-component residual returned as a 0-d scalar
Conds == {"none", "dirichlet", "neumann"}
Facets(d) == 1..(2 * d)
C04 == UNION {UNION {[kind : {"loss_struct"}, family : {"C04"}, lkind : {lk}, dim : {d}, form : {"global", "dict"},
                      conds : [Facets(d) -> Conds], gzero : BOOLEAN, gret : {"scalar", "array"}, nout : 1..2, comp : 1..2,
                      nb : {1, 2, 4}, nt : {1, 2}]
                     : d \in {1, 2}} : lk \in {"statio", "nonstatio"}}
C04ok(c) == /\ c.comp <= c.nout
            /\ (c.form = "global" => \A f, g \in Facets(c.dim) : c.conds[f] = c.conds[g] /\ c.conds[f] # "none")
            /\ (\E f \in Facets(c.dim) : c.conds[f] # "none")
            /\ (c.lkind = "statio" => c.nt = 1)
            /\ (c.dim = 1 => c.nb <= 2)       \* 1-D: the facet is one point; a hand-built batch may repeat it (nb = 2 rows)
            /\ (c.nb * c.nt <= MaxB)
C05 == UNION {[kind : {"loss_struct"}, family : {"C05"}, lkind : {lk}, term : {"ic", "norm", "obs"}, nout : 1..3, b : Bs,
               ns : {2, 4, 8}, L : {1, 2, 4}, wform : {"scalar", "vector"}, sl : {"all", "first", "last"}, etab : BOOLEAN, cart : BOOLEAN,
               sol : {"all", "tail"}]      \* slice_solution: every output, or all but the first (the observation slice is relative to it)
              : lk \in LKinds}
C05ok(c) == /\ (c.term = "ic" => c.lkind # "statio" /\ c.ns = 2 /\ c.L = 1 /\ c.sl = "all" /\ ~c.etab)
            /\ (c.term = "norm" => c.lkind # "ode" /\ c.wform = "scalar" /\ c.sl \in {"all", "first"} /\ ~c.etab /\ (c.nout <= 2 \/ c.sol = "tail")
                                   /\ (c.sl = "all" => c.nout = 1))
            /\ (c.term = "obs" => c.ns = 2 /\ c.L = 1 /\ ~c.cart)
            /\ (c.sol = "tail" => (c.term = "obs" /\ c.nout >= 2 /\ (c.sl # "all" => c.nout = 3) /\ (c.wform = "vector" => c.nout = 3))
                                   \/ (c.term = "norm" /\ c.nout >= 2 /\ c.sl = "first"))     \* normalisation of a solution slice 2..nout (two components when nout = 3)
            /\ (c.term # "ic" \/ c.lkind = "ode" => ~c.cart \/ c.term = "norm")
            /\ (c.lkind = "ode" /\ c.term = "ic" => c.wform = "scalar" /\ c.b = 1)
            /\ (c.sl # "all" => c.nout >= 2)
            /\ (c.wform = "vector" => c.nout >= 2 /\ (c.term = "obs" => c.sl = "all"))
PKeys == 1..3
C12 == UNION {[kind : {"loss_struct"}, family : {"C12"}, lkind : {lk}, batched : SUBSET PKeys, pshape : {"scalar", "one"},
               ot : BOOLEAN, hetero : {"none", "k1", "k3map", "k1k3", "k3k1"}, obsk : BOOLEAN, b : {2, 4}, pint : BOOLEAN, normp : BOOLEAN,
               bndp : {"none", "dirichlet", "neumann"}]     \* k1k3 / k3k1: TWO heterogeneous keys, one map reading the RAW value of the other
              : lk \in LKinds}
\* pint: the batched tables are integer-typed arrays (only with a batch, plain networks, no heterogeneity: the values are the same integers)
C12ok(c) == (c.hetero # "none" => c.batched \subseteq {1, 2} /\ ~c.obsk) /\ (c.obsk => 3 \notin c.batched)
            /\ (c.pint => c.batched # {} /\ c.hetero = "none" /\ ~c.obsk /\ c.pshape = "scalar")
            \* normp: a normalisation term next to a parameter batch the network depends on (stationary: sample s with row s;
            \* non-stationary: the integral at the time stamp of row j with parameter row j)
            /\ (c.normp => c.lkind # "ode" /\ c.batched # {} /\ c.batched \subseteq {1, 2} /\ c.ot /\ c.hetero = "none" /\ ~c.obsk /\ ~c.pint)
            \* bndp: a boundary condition next to a parameter batch the network depends on: border row j is evaluated with parameter row j
            /\ (c.bndp # "none" => c.lkind # "ode" /\ c.batched # {} /\ c.batched \subseteq {1, 2} /\ c.ot /\ c.hetero = "none" /\ ~c.obsk /\ ~c.pint /\ ~c.normp)
C13 == [kind : {"loss_struct"}, family : {"C13"}, lkind : LKinds, neq : 1..3, nunk : 1..3, naming : {"same", "different", "overlap"},
        wform : {"scalar", "dict", "nodyn", "nocons"}, icpat : {"none", "first", "all"}, obspat : {"none", "first", "all"}, bnd : BOOLEAN, pbatch : BOOLEAN,
        shared : BOOLEAN,
        obs2 : BOOLEAN,
        normu : BOOLEAN]       \* every unknown has its own normalisation samples and volume (PDE systems)        \* two-output networks, each unknown observed on its OWN output component (obs_slice_dict differs between unknowns)      \* the unknowns are output slices of ONE network (create_PINN(shared_pinn_outputs=...)), same parameter set under every key
\* wform: "nodyn" = the dyn_loss weight is missing (None: the dynamic term is dropped), "nocons" = only the dyn_loss weight is given
\*        (ODE systems: the other terms are dropped; PDE systems: their documented default 1.0 applies)
C13ok(c) == /\ (c.naming = "same" => c.neq = c.nunk)
            /\ (c.lkind = "statio" => c.icpat = "none")
            /\ (c.lkind = "ode" => ~c.bnd)
            /\ (c.pbatch => c.obspat = "none" /\ ~c.bnd)
            /\ (c.shared => c.nunk >= 2 /\ c.naming # "overlap")
            /\ (c.normu => c.lkind # "ode" /\ ~c.shared /\ ~c.obs2 /\ ~c.pbatch /\ c.obspat = "none")
            /\ (c.obs2 => c.nunk >= 2 /\ c.obspat = "all" /\ c.icpat = "none" /\ ~c.shared /\ ~c.pbatch)   \* with bnd: the condition applies to the unknown's own component too
(* loss terms on separable networks (C11, and the SPINN side of C04 / C05) *)
C11L == [kind : {"loss_struct"}, family : {"C11L"}, lkind : {"statio", "nonstatio"}, dim : 1..2, term : {"ic", "norm", "dirichlet", "neumann", "dyn"},
         b : {1, 2, 4}, R : 1..2, M : 1..2, gzero : BOOLEAN]
C11Lok(c) == /\ (c.term = "ic" => c.lkind = "nonstatio" /\ ~c.gzero)
             /\ (c.term = "norm" => c.M = 1 /\ ~c.gzero)
             /\ (c.term = "dyn" => ~c.gzero)
             /\ (c.term = "neumann" => c.R = 1 \/ c.M = 1)       \* Neumann on one selected component of a 1- or 2-output network
             /\ (c.dim = 2 /\ c.lkind = "nonstatio" => c.b <= 2)
Space == CASE Family = "C03" -> {c \in C03 : C03ok(c)}
           [] Family = "C11L" -> {c \in C11L : C11Lok(c)}
           [] Family = "C13" -> {c \in C13 : C13ok(c)}
           [] Family = "C04" -> {c \in C04 : C04ok(c)}
           [] Family = "C05" -> {c \in C05 : C05ok(c)}
           [] Family = "C12" -> {c \in C12 : C12ok(c)}
Init == cfg \in Space
Next == UNCHANGED cfg
Spec == Init /\ [][Next]_cfg
SetAsSeq(S) == CHOOSE s \in [1..Cardinality(S) -> S] : \A i, j \in 1..Cardinality(S) : i # j => s[i] # s[j]
Out(c) == IF Family = "C03" THEN [c EXCEPT !.extras = SetAsSeq(@)]
          ELSE IF Family = "C12" THEN [c EXCEPT !.batched = SetAsSeq(@)]
          ELSE c
Emit == PrintT(ToJson(Out(cfg)))
=============================================================================
