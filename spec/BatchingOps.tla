---------------------------- MODULE BatchingOps ----------------------------
(* Pure operators describing ONE collocation / observation / parameter store of jinns and its
   cursor (jinns/data/_DataGenerators.py: _reset_or_increment, _reset_batch_idx_and_permute,
   _increment_batch_idx, lax.dynamic_slice).  No variables: the model-checked module Batching
   and the trace monitors (Trace_DataGen, Trace_Rar, Trace_Solve) are all built from these
   clause operators, so the model checker and the monitors share one source of truth.

   A store of n slots holds point identities (positive integers; 0 = "a value that is not one
   of the registered points").  `act` is the set of slots with non-zero sampling probability
   (all slots without RAR).  `cur` is the start of the last served batch. *)
EXTENDS Integers, Sequences, FiniteSets, SequencesExt, Functions

SeqRange(s) == {s[k] : k \in DOMAIN s}

IsPermOf(s, ids) == Len(s) = Cardinality(ids) /\ SeqRange(s) = ids
Count(s, v) == Cardinality({k \in DOMAIN s : s[k] = v})
SameBag(a, b) == Len(a) = Len(b) /\ \A v \in SeqRange(a) \cup SeqRange(b) : Count(a, v) = Count(b, v)
AtSlots(s, S) == LET idx == SetToSortSeq(S \cap DOMAIN s, LAMBDA x, y : x < y) IN [k \in 1..Len(idx) |-> s[idx[k]]]

(* lax.dynamic_slice clamps the start index so that the window stays inside the array *)
Clamp(s, n, b) == IF s + b > n THEN n - b ELSE IF s < 0 THEN 0 ELSE s
Slice(p, s, n, b) == [k \in 1..b |-> p[Clamp(s, n, b) + k]]

(* The epoch-end test.  "ge" is what the property demands (a reshuffle as soon as every active
   point has been served); "gt" is the variant found in the pinned tree (regression witness). *)
ResetCond(rule, cur, b, neff) ==
    IF rule = "ge" THEN cur + b >= neff ELSE cur + b > neff

ActiveIds(order, act) == {order[k] : k \in act \cap DOMAIN order}

(* jax.random.choice(replace=False, p): the active values come first in some order; the
   zero-probability values keep their relative order at the end. *)
ValidReshuffle(order, act, q) ==
    LET na == Cardinality(act \cap DOMAIN order) IN
        /\ Len(q) = Len(order)
        /\ SameBag(SubSeq(q, 1, na), AtSlots(order, act))
        /\ SubSeq(q, na + 1, Len(q)) = AtSlots(order, (DOMAIN order) \ act)

(* ---- clause operators of the action Draw: (order, cur) -> (order2, cur2, batch) ---- *)
CursorOK(rule, cur, b, neff, cur2) ==
    cur2 = IF ResetCond(rule, cur, b, neff) THEN 0 ELSE cur + b
OrderOK(rule, order, act, cur, b, neff, order2) ==
    IF ResetCond(rule, cur, b, neff) THEN ValidReshuffle(order, act, order2) ELSE order2 = order
BatchOK(order2, cur2, b, batch) == batch = Slice(order2, cur2, Len(order2), b)

DrawOK(rule, order, act, cur, b, neff, order2, cur2, batch) ==
    /\ CursorOK(rule, cur, b, neff, cur2)
    /\ OrderOK(rule, order, act, cur, b, neff, order2)
    /\ BatchOK(order2, cur2, b, batch)

(* ---- property-level clauses (C09), phrased on what is observed only ---- *)
ObservedReset(cur2) == cur2 = 0
ServedTwice(cur2, b, neff, batch, served) ==
    ~ObservedReset(cur2) /\ neff % b = 0 /\ SeqRange(batch) \cap served # {}
EarlyReshuffle(first, cur2, order, act, served) ==
    ObservedReset(cur2) /\ ~first /\ ~(ActiveIds(order, act) \subseteq served)
LateReshuffle(first, cur2, order, act, served) ==
    ~ObservedReset(cur2) /\ ~first /\ ActiveIds(order, act) \subseteq served
NextServed(cur2, batch, served) ==
    IF ObservedReset(cur2) THEN SeqRange(batch) ELSE served \cup SeqRange(batch)

(* The name of the first failing clause of a draw, "ok" if none.  `ids` is the set of point
   identities the store was built with. *)
DrawVerdictG(strict, rule, first, order, act, cur, b, neff, served, order2, cur2, batch) ==
    LET reset == first \/ ResetCond(rule, cur, b, neff) IN
    IF ~SameBag(order2, order) THEN "StoreNotPermutation"
    ELSE IF reset /\ cur2 # 0 THEN "ExpectedReshuffle"
    ELSE IF ~reset /\ cur2 # cur + b THEN "ExpectedAdvance"
    ELSE IF ~reset /\ order2 # order THEN "StoreChangedWithoutReshuffle"
    ELSE IF reset /\ ~ValidReshuffle(order, act, order2) THEN "InvalidReshuffle"
    ELSE IF Len(batch) # b THEN "BatchSize"
    ELSE IF ~BatchOK(order2, cur2, b, batch) THEN "BatchNotSliceOfStore"
    ELSE IF strict /\ ServedTwice(cur2, b, neff, batch, served) THEN "PointServedTwice"
    ELSE IF strict /\ EarlyReshuffle(first, cur2, order, act, served) THEN "ReshuffleBeforeAllServed"
    ELSE IF strict /\ LateReshuffle(first, cur2, order, act, served) THEN "LateReshuffle"
    ELSE "ok"
DrawVerdict(rule, first, ids, order, act, cur, b, neff, served, order2, cur2, batch) ==
    IF ~IsPermOf(order2, ids) THEN "StoreNotPermutation"
    ELSE DrawVerdictG(TRUE, rule, first, order, act, cur, b, neff, served, order2, cur2, batch)
=============================================================================
