----------------------------- MODULE CursorInd -----------------------------
(* Unbounded-parameter companion of Batching.tla / Rar.tla (Apalache, inductive invariants):
   the cursor arithmetic of a store and the capacity arithmetic of residual-adaptive refinement
   for ALL sizes, not only the small scopes TLC enumerates.
     IndInit /\ [Next]_vars => IndInv'  is discharged by Apalache with  --init=IndInit --inv=IndInv --length=1,
     Init => IndInv                      with  --init=Init --inv=IndInv --length=0.                       *)
EXTENDS Integers

VARIABLES
    \* @type: Int;
    n,
    \* @type: Int;
    b,
    \* @type: Int;
    nstart,
    \* @type: Int;
    sel,
    \* @type: Int;
    steps,
    \* @type: Int;
    cur,
    \* @type: Bool;
    fresh,
    \* @type: Int;
    q

NEff == nstart + steps * sel                      \* number of active points
Room == NEff + sel <= n                           \* the store can hold another full set
Clamp(s) == IF s + b > n THEN n - b ELSE s        \* lax.dynamic_slice

Init == /\ n \in Int /\ b \in Int /\ nstart \in Int /\ sel \in Int
        /\ n >= 1 /\ b >= 1 /\ b <= n /\ nstart >= 1 /\ nstart <= n /\ sel >= 1
        /\ steps = 0 /\ cur = 0 /\ fresh = TRUE /\ q = 0

Draw == /\ IF fresh \/ cur + b >= NEff THEN cur' = 0 /\ q' = 0 ELSE cur' = cur + b /\ q' = q + 1
        /\ fresh' = FALSE
        /\ UNCHANGED <<n, b, nstart, sel, steps>>
Refine == /\ Room /\ steps' = steps + 1
          /\ UNCHANGED <<n, b, nstart, sel, cur, fresh, q>>
Next == Draw \/ Refine

(* the inductive invariant *)
IndInv == /\ n >= 1 /\ b >= 1 /\ b <= n /\ nstart >= 1 /\ sel >= 1 /\ steps >= 0
          /\ NEff <= n                                     \* C16: the active count never exceeds the store
          /\ cur >= 0 /\ (cur = 0 \/ cur < NEff)            \* the cursor stays inside the active prefix
          /\ Clamp(cur) >= 0 /\ Clamp(cur) + b <= n        \* C08: every served window lies inside the store
          /\ q >= 0 /\ cur = q * b                           \* the cursor is a multiple of the batch size (q = block index), hence
(* C09 (arithmetic core): when the batch size divides the number of active points, a served window never needs clamping,
   so the windows of one epoch are the disjoint blocks [k b, (k+1) b) *)
NoClampWhenDivides == (NEff % b = 0) => (cur + b <= NEff /\ Clamp(cur) = cur)
IndInit == /\ n \in Int /\ b \in Int /\ nstart \in Int /\ sel \in Int /\ steps \in Int /\ cur \in Int /\ fresh \in BOOLEAN /\ q \in Int
           /\ IndInv
=============================================================================
