-------------------------------- MODULE Purity --------------------------------
(* C20: evaluating a loss or drawing a batch is a pure function of its arguments.
   Objects are abstracted to FINGERPRINTS (structure + array bytes + nested user dictionaries).
   The model explores every ORDER of calls up to MaxLen over a small universe:
     Eval(l, b, m)  loss l on batch variant b in mode m (eager | jit closing over the loss | jitarg: the loss is an
                    argument of the compiled function, as in jinns.solve | value-and-grad primal)
     Draw(g, k, m)  get_batch (eager | jit) on the k-th state already produced for generator g (0 = initial)
   Pure semantics: a call never changes the fingerprint of an argument and its result is a function
   of the argument fingerprints only (memo).  Every maximal sequence is emitted as a scenario and
   executed on the real objects (harness/drv_purity.py); Trace_Purity judges the recorded events.
   Impure = TRUE is the regression witness of the in-place update found in SystemLossPDE.evaluate
   (a call with a parameter batch bumps the fingerprint of the caller's parameters). *)
EXTENDS Naturals, Sequences, FiniteSets, TLC, Json
CONSTANTS Losses, Variants, Modes, Gens, MaxLen, Impure, EmitScenarios
VARIABLES fp, memo, states, calls
vars == <<fp, memo, states, calls>>
EvalCalls == [kind : {"eval"}, l : Losses, b : Variants, m : Modes]
Init == /\ fp = [l \in Losses |-> 0]                 \* fingerprint version of the parameters given to loss l
        /\ memo = [c \in {} |-> 0]
        /\ states = [g \in Gens |-> 1]               \* number of generator states known (the initial one)
        /\ calls = <<>>
Sig(c) == <<c.l, c.b, fp[c.l]>>                      \* the result depends on the arguments only (not on the mode)
Eval(c) == /\ Len(calls) < MaxLen
           /\ calls' = Append(calls, c)
           /\ memo' = IF Sig(c) \in DOMAIN memo THEN memo ELSE [s \in DOMAIN memo \cup {Sig(c)} |-> IF s = Sig(c) THEN Cardinality(DOMAIN memo) + 1 ELSE memo[s]]
           /\ fp' = IF Impure /\ c.b = "param" /\ c.l = "syspde" THEN [fp EXCEPT ![c.l] = @ + 1] ELSE fp
           /\ UNCHANGED states
Draw(g, k, m) == /\ Len(calls) < MaxLen /\ k < states[g]
              /\ calls' = Append(calls, [kind |-> "draw", g |-> g, k |-> k, m |-> m])
              /\ states' = [states EXCEPT ![g] = IF k = @ - 1 THEN @ + 1 ELSE @]   \* drawing from the newest state yields a new one
              /\ UNCHANGED <<fp, memo>>
Next == (\E c \in EvalCalls : Eval(c)) \/ (\E g \in Gens, k \in 0..MaxLen, m \in Modes \ {"vg", "jitarg"} : Draw(g, k, m))
Spec == Init /\ [][Next]_vars
ArgsUnchanged == [][fp' = fp]_vars
MemoCoversCalls == \A i \in DOMAIN calls : calls[i].kind = "eval" => \E s \in DOMAIN memo : s[1] = calls[i].l /\ s[2] = calls[i].b
Emit == (EmitScenarios /\ Len(calls) = MaxLen) => PrintT(ToJson([kind |-> "purity", calls |-> calls]))
=============================================================================
