----------------------------- MODULE Trace_Purity -----------------------------
(* Monitor for C20: each trace is one call sequence (emitted by TLC from Purity.tla) executed on
   the real jinns objects, every event carrying interned fingerprints of the arguments before and
   after the call and of the result.  The monitor keeps the memo of Purity.tla and names the
   first clause that fails. *)
EXTENDS Naturals, Sequences, FiniteSets, TLC, TLCExt, Json, IOUtils
Traces == JsonDeserialize(IOEnv.TRACE_FILE)
VARIABLES tid, l, seenE, seenD, viol
vars == <<tid, l, seenE, seenD, viol>>
T == Traces[tid]
E == T.ev[l]
EvalVerdict ==
    IF E.exc # "" THEN "CallRaised"
    ELSE IF E.after # E.before THEN "ArgumentMutated"
    ELSE IF \E s \in seenE : s.l = E.l /\ s.b = E.b /\ s.m = E.m /\ s.args = E.before /\ s.res # E.res THEN "NotRepeatable"
    ELSE IF E.exact /\ \E s \in seenE : s.l = E.l /\ s.b = E.b /\ s.m # E.m /\ s.args = E.before /\ s.res # E.res THEN "ResultDependsOnCompilationMode"
    ELSE "ok"
DrawVerdict ==
    IF E.exc # "" THEN "CallRaised"
    ELSE IF E.after # E.before THEN "GeneratorMutated"
    ELSE IF \E s \in seenD : s.g = E.g /\ s.args = E.before /\ s.res # E.res THEN "DrawNotFunctional"
    ELSE "ok"
Init == tid \in 1..Len(Traces) /\ l = 1 /\ seenE = {} /\ seenD = {} /\ viol = "ok"
Step == /\ viol = "ok" /\ l <= Len(T.ev)
        /\ viol' = IF E.kind = "eval" THEN EvalVerdict ELSE DrawVerdict
        /\ seenE' = IF E.kind = "eval" THEN seenE \cup {[l |-> E.l, b |-> E.b, m |-> E.m, args |-> E.before, res |-> E.res]} ELSE seenE
        /\ seenD' = IF E.kind = "draw" THEN seenD \cup {[g |-> E.g, args |-> E.before, res |-> E.res]} ELSE seenD
        /\ l' = l + 1 /\ UNCHANGED tid
Spec == Init /\ [][Step]_vars
Report == viol # "ok" => PrintT(ToJson([tag |-> "REJECT", tid |-> tid, ev |-> l - 1, clause |-> viol]))
Done == (viol = "ok" /\ l = Len(T.ev) + 1) => TLCSet(1, TLCGet(1) \cup {tid})
Summary == PrintT(ToJson([tag |-> "ACCEPTED", n |-> Cardinality(TLCGet(1)), total |-> Len(Traces)]))
ASSUME TLCSet(1, {})
=============================================================================
