------------------------------ MODULE SolveOps ------------------------------
(* The training loop of jinns.solve (jinns/solver/_solve.py) and the validation modules
   (jinns/validation/_validation.py) as PURE operators over an abstract state record, shared
   by the model-checked module Solve and by the monitor Trace_Solve.

   Abstraction: parameters are identified by their VERSION (number of optimizer updates applied,
   NaN when an update produced a non-finite parameter); a batch is identified by its DRAW INDEX
   in the reference draw sequence of the generators (draw 0 is consumed by solve before the
   loop to probe the structure of the loss terms - a deliberate behaviour of the code, kept
   explicit here).

   Scenario record C:
     n        requested iterations
     ce       validation period (0 = no validation module)
     vkind    "none" | "script" (user module following a script) | "builtin" (ValidationLoss)
     script   user module: sequence of [improve, stop] per invocation
     vals     builtin: sequence of validation-loss values, one per invocation
     patience, earlyOn   builtin hyper-parameters
     fault    iteration whose update yields NaN parameters (-1 = none), origin = where it arises
     v0, o0   parameter version / optimizer steps at entry (resumed runs), d0 = draws consumed   *)
EXTENDS Integers, Sequences, FiniteSets

NaN == -1
Inf == 2147483647

(* ---- the built-in ValidationLoss: counter / best / patience --------------------------- *)
VLInit == [count |-> 0, best |-> Inf]
VLImproved(vs, v) == v # NaN /\ v < vs.best                 \* strict new minimum
VLStop(vs, patience, earlyOn) == earlyOn /\ vs.count = patience   \* OLD counter, before this call
VLNext(vs, v) == IF VLImproved(vs, v) THEN [count |-> 0, best |-> v]
                 ELSE [count |-> vs.count + 1, best |-> vs.best]

(* ---- which parameter groups a fault of a given origin turns into NaN ------------------- *)
(* a NaN loss value or a NaN optimizer update poisons every leaf; a NaN gradient of one leaf poisons
   that leaf only - the other leaves of the failing update are finite but must not be returned *)
NNPoisoned(C) == C.origin \in {"loss", "grad_nn", "opt"}
EqPoisoned(C) == C.origin \in {"loss", "grad_eq", "opt"}
Leaves(v, faulty, C) == [nn |-> IF faulty /\ NNPoisoned(C) THEN NaN ELSE v,
                         eq |-> IF faulty /\ EqPoisoned(C) THEN NaN ELSE v]
Whole(v) == [nn |-> v, eq |-> v]

(* ---- solve ---------------------------------------------------------------------------- *)
SolveInit(C) ==
    [i |-> 0, pv |-> C.v0, last |-> C.v0, opt |-> C.o0, best |-> Whole(C.v0), early |-> FALSE,
     crit |-> <<>>, hist |-> <<>>, tracked |-> <<>>, calls |-> 0, callAt |-> <<>>, vs |-> VLInit,
     draws |-> C.d0 + 1]                                   \* ProbeDraw: one batch before the loop

BreakFun(s, C) == s.i < C.n /\ s.pv # NaN /\ ~s.early      \* TRUE = keep looping

ValidationCalled(s, C) == C.vkind # "none" /\ s.i % C.ce = 0

(* One iteration, in code order: GetBatch, GradientStep, ValidationCond, (TriggerRar),
   StoreLossAndParams, i + 1. *)
OneIteration(s, C) ==
    LET faulty == C.fault = s.i
        lossRec == [ver |-> s.pv, draw |-> s.draws, nan |-> faulty /\ C.origin = "loss"]
        pv1 == IF faulty THEN NaN ELSE s.pv + 1            \* optimizer update
        last1 == IF pv1 = NaN THEN s.last ELSE pv1          \* last_non_nan_params
        lv == Leaves(s.pv + 1, faulty, C)                   \* the parameter set after the update, leaf by leaf
        called == ValidationCalled(s, C)
        k == s.calls + 1
        v == IF lv.nn = NaN THEN NaN ELSE C.vals[k]         \* the crafted validation loss reads the network leaf
        improve == IF ~called THEN FALSE
                   ELSE IF C.vkind = "script" THEN C.script[k].improve ELSE VLImproved(s.vs, v)
        stop == IF ~called THEN FALSE
                ELSE IF C.vkind = "script" THEN C.script[k].stop ELSE VLStop(s.vs, C.patience, C.earlyOn)
        critNow == IF C.vkind = "none" THEN 0
                   ELSE IF ~called THEN s.crit[s.i]           \* carried forward
                   ELSE IF C.vkind = "script" THEN lv.nn      \* the scripted module reports what it saw
                   ELSE v
    IN [i |-> s.i + 1, pv |-> pv1, last |-> last1, opt |-> s.opt + 1,
        best |-> IF improve THEN lv ELSE s.best,             \* ValidationSeesPostUpdateParams
        early |-> stop,
        crit |-> Append(s.crit, critNow),
        hist |-> Append(s.hist, lossRec),
        tracked |-> Append(s.tracked, lv),                  \* TrackedStoresPostUpdateParams
        calls |-> IF called THEN k ELSE s.calls,
        callAt |-> IF called THEN Append(s.callAt, s.i) ELSE s.callAt,
        vs |-> IF called /\ C.vkind = "builtin" THEN VLNext(s.vs, v) ELSE s.vs,
        draws |-> s.draws + 1]

RECURSIVE Run(_, _)
Run(s, C) == IF BreakFun(s, C) THEN Run(OneIteration(s, C), C) ELSE s

(* what solve returns, as a projection of the final state *)
Result(s, C) ==
    [iters |-> s.i, params |-> s.last, opt |-> s.opt, best |-> IF C.vkind = "none" THEN Whole(NaN) ELSE s.best,
     crit |-> s.crit, hist |-> s.hist, tracked |-> s.tracked, draws |-> s.draws, calls |-> s.calls]
=============================================================================
