CONSTANTS Losses = {"ode", "syspde"}
Variants = {"plain", "param"}
Modes = {"eager", "jit", "vg"}
Gens = {"odegen"}
MaxLen = 3
Impure = FALSE
EmitScenarios = FALSE
SPECIFICATION Spec
PROPERTY ArgsUnchanged
INVARIANT Emit
