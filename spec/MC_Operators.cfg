CONSTANTS MaxDim = 2
MaxDeg = 3
NPts = 3
SPECIFICATION Spec
INVARIANT Emit
INVARIANT DivGradIsLap
INVARIANT LapIgnoresTime
