------------------------------ MODULE DataGen ------------------------------
(* Model of a non-stationary generator: three independent stores (interior, border rows,
   times), one get_batch drawing them in code order and assembling the space-time batch.
   Small stores, all permutations; checks C14 (exact products / pairings, time-major),
   and that the three cursors are independent (each store obeys Batching on its own). *)
EXTENDS DataGenOps, TLC
CONSTANTS MaxN, MaxDraws
VARIABLES nx, nb, nt, bx, bb, bt, cart, dim, ox, ob, ot, cx, cb, ct, inside, border, draws
vars == <<nx, nb, nt, bx, bb, bt, cart, dim, ox, ob, ot, cx, cb, ct, inside, border, draws>>
Perms(k) == {p \in [1..k -> 1..k] : \A i, j \in 1..k : i # j => p[i] # p[j]}
BIG == 1000000
Init == /\ nx \in 1..MaxN /\ nb \in 1..MaxN /\ nt \in 1..MaxN
        /\ bx \in 1..MaxN /\ bb \in 1..MaxN /\ bt \in 1..MaxN
        /\ bx <= nx /\ bb <= nb /\ bt <= nt
        /\ cart \in BOOLEAN /\ dim \in {1, 2}
        /\ (dim = 1 => (nb = 1 /\ bb = 1))          \* 1-D: the border is one constant row
        /\ (~cart => (bt = bx /\ (dim = 2 => bt = bb)))   \* constructor's requirement
        /\ ox = [k \in 1..nx |-> k] /\ ob = [k \in 1..nb |-> k] /\ ot = [k \in 1..nt |-> k]
        /\ cx = BIG /\ cb = BIG /\ ct = BIG /\ inside = <<>> /\ border = <<>> /\ draws = 0
GetBatch ==
    /\ draws < MaxDraws
    /\ \E qx \in Perms(nx), qb \in Perms(nb), qt \in Perms(nt),
          c2x \in {0, cx + bx}, c2b \in {0, cb + bb}, c2t \in {0, ct + bt} :
          LET xb == Slice(qx, c2x, nx, bx)  dxb == Slice(qb, c2b, nb, bb)  tb == Slice(qt, c2t, nt, bt) IN
          /\ DrawOK("ge", ox, 1..nx, cx, bx, nx, qx, c2x, xb)
          /\ IF dim = 1 THEN qb = ob /\ c2b = cb      \* no cursor for the 1-D border
             ELSE DrawOK("ge", ob, 1..nb, cb, bb, nb, qb, c2b, dxb)
          /\ DrawOK("ge", ot, 1..nt, ct, bt, nt, qt, c2t, tb)
          /\ ox' = qx /\ ob' = qb /\ ot' = qt /\ cx' = c2x /\ cb' = c2b /\ ct' = c2t
          /\ inside' = InsideRows(cart, tb, xb)
          /\ border' = BorderRows(cart, dim, tb, IF dim = 1 THEN ob ELSE dxb)
    /\ draws' = draws + 1
    /\ UNCHANGED <<nx, nb, nt, bx, bb, bt, cart, dim>>
Next == GetBatch
Spec == Init /\ [][Next]_vars

CurT == Slice(ot, ct, nt, bt)
CurX == Slice(ox, cx, nx, bx)
CurB == IF dim = 1 THEN ob ELSE Slice(ob, cb, nb, bb)
ProductExact ==
    draws > 0 /\ cart =>
       /\ ExactlyOnce(inside, CurT, CurX) /\ TimeMajor(inside, CurT, CurX)
       /\ ExactlyOnce(border, CurT, CurB) /\ TimeMajor(border, CurT, CurB)
PairingExact ==
    draws > 0 /\ ~cart =>
       /\ Len(inside) = bt /\ \A k \in 1..bt : inside[k] = <<CurT[k], CurX[k]>>
       /\ (dim = 2 => Len(border) = bt /\ \A k \in 1..bt : border[k] = <<CurT[k], CurB[k]>>)
       /\ (dim = 1 => ExactlyOnce(border, CurT, CurB))
RowCounts ==
    draws > 0 => /\ Len(inside) = (IF cart THEN bt * bx ELSE bt)
                 /\ Len(border) = (IF cart \/ dim = 1 THEN bt * (IF dim = 1 THEN 1 ELSE bb) ELSE bt)
=============================================================================
