CONSTANTS Cap = 5
MaxNStart = 2
MaxSel = 2
Sample = 3
MaxStart = 1
MaxEvery = 2
MaxB = 2
MaxIter = 7
SPECIFICATION Spec
INVARIANT ActiveCount
INVARIANT AddedAreTopResidual
PROPERTY OnSchedule
PROPERTY ActivePointsSurvive
PROPERTY OnlyInactiveOverwritten
PROPERTY StoreKeepsOtherPoints
PROPERTY MonitorAgrees
