----------------------------- MODULE Trace_Solve -----------------------------
(* Conformance of the real jinns.solve with SolveOps.  Each record is one scenario (emitted by
   TLC from Solve.tla, or a member of the driver families of C07) together with the projection
   of what the real solve returned (decoded by tagged arithmetic) and the reference draw
   sequence of the generators (obtained by calling get_batch outside solve).
   The expected result is RECOMPUTED here from the scenario with the same operators the model
   checker explores (Run / OneIteration / BreakFun), then compared clause by clause. *)
EXTENDS SolveOps, TLC, TLCExt, Json, IOUtils
Recs == JsonDeserialize(IOEnv.TRACE_FILE)
UNTOUCHED == -2
SKIP == -9
VARIABLES tid, viol
vars == <<tid, viol>>
Rec == Recs[tid]
C == Rec.C
O == Rec.obs
Fin == Run(SolveInit(C), C)
R == Result(Fin, C)
Decoded == Rec.decoded           \* parameter versions decode (the "dec" optimizer)

HistVerdict(k) ==
    LET h == O.hist[k] IN
    IF k > R.iters THEN (IF h.ver # UNTOUCHED THEN "EntryWrittenAfterStop" ELSE "ok")
    ELSE LET e == R.hist[k]  d == Rec.draws[e.draw + 1] IN
         IF h.ver = UNTOUCHED THEN "IterationNotRecorded"
         ELSE IF e.nan # h.nan THEN "LossNaNMismatch"
         ELSE IF Decoded /\ h.ver # e.ver THEN "LossAtWrongParams"
         ELSE IF ~e.nan /\ (h.t # d.t \/ h.p # d.p \/ h.o # d.o) THEN "LossOnWrongBatch"
         ELSE IF ~h.sum_ok THEN "TotalNotSumOfTerms"
         ELSE "ok"
TrackedVerdict(k) ==
    IF ~Decoded THEN "ok"
    ELSE IF k > R.iters THEN
         (IF (O.tracked_nn # <<>> /\ O.tracked_nn[k] # UNTOUCHED) \/ (O.tracked_eq # <<>> /\ O.tracked_eq[k] # UNTOUCHED)
          THEN "TrackedWrittenAfterStop" ELSE "ok")
    ELSE IF O.tracked_nn # <<>> /\ O.tracked_nn[k] # R.tracked[k].nn THEN "TrackedValueWrong"
    ELSE IF O.tracked_eq # <<>> /\ O.tracked_eq[k] # R.tracked[k].eq THEN "TrackedValueWrong"
    ELSE "ok"
CritVerdict(k) ==
    IF C.vkind = "none" THEN "ok"
    ELSE IF k > R.iters THEN (IF O.crit[k] # UNTOUCHED THEN "CriterionWrittenAfterStop" ELSE "ok")
    ELSE IF O.crit[k] # R.crit[k] THEN
            (IF (k - 1) % C.ce = 0 THEN "CriterionAtInvocationWrong" ELSE "CriterionNotCarriedForward")
    ELSE "ok"
FirstBad(seq) == LET bad == SelectSeq(seq, LAMBDA v : v # "ok") IN IF bad = <<>> THEN "ok" ELSE Head(bad)

Verdict ==
    IF ~O.len_ok \/ Len(O.hist) # C.n THEN "HistoryLength"
    ELSE IF Cardinality({k \in 1..C.n : O.hist[k].ver # UNTOUCHED}) # R.iters THEN
            (IF Cardinality({k \in 1..C.n : O.hist[k].ver # UNTOUCHED}) < R.iters THEN "StoppedTooEarly" ELSE "RanTooLong")
    ELSE LET hv == FirstBad([k \in 1..C.n |-> HistVerdict(k)])
             tv == FirstBad([k \in 1..C.n |-> TrackedVerdict(k)])
             cv == FirstBad([k \in 1..C.n |-> CritVerdict(k)]) IN
         IF hv # "ok" THEN hv
         ELSE IF ~O.params_nan_free THEN "ReturnedParamsNotFinite"
         ELSE IF Decoded /\ O.params # R.params THEN "ReturnedParamsWrong"
         ELSE IF tv # "ok" THEN tv
         ELSE IF O.opt # SKIP /\ O.opt # R.opt THEN "OptimizerStateWrong"
         ELSE IF O.has_val # (C.vkind # "none") THEN "ValidationOutputsPresence"
         ELSE IF cv # "ok" THEN cv
         ELSE IF Decoded /\ C.vkind # "none" /\ (O.best_nn # R.best.nn \/ O.best_eq # R.best.eq) THEN "BestParamsWrong"
         ELSE IF O.gen_cur # Rec.genstates[R.draws].cur \/ O.gen_order # Rec.genstates[R.draws].order
              THEN "ReturnedGeneratorWrong"
         ELSE "ok"

Init == tid \in 1..Len(Recs) /\ viol = "init"
Step == viol = "init" /\ viol' = Verdict /\ UNCHANGED tid
Spec == Init /\ [][Step]_vars
Report == (viol # "ok" /\ viol # "init") =>
             PrintT(ToJson([tag |-> "REJECT", tid |-> tid, ev |-> R.iters, clause |-> viol]))
Done == viol = "ok" => TLCSet(1, TLCGet(1) \cup {tid})
Summary == PrintT(ToJson([tag |-> "ACCEPTED", n |-> Cardinality(TLCGet(1)), total |-> Len(Recs)]))
ASSUME TLCSet(1, {})
=============================================================================
