------------------------------ MODULE Batching ------------------------------
(* Model of one store + cursor of a jinns data generator, for ALL sizes 1 <= B <= N <= MaxN,
   all active prefixes NEff (RAR masks) and all permutations a reshuffle may produce.
   Properties C09 (and the history part of C08) are checked on every behaviour.
   Rule = "ge" is the property-conforming algorithm; Rule = "gt" is the pinned tree's test
   (kept as a regression witness: TLC must find PointServedTwice / LateReshuffle with it). *)
EXTENDS BatchingOps, TLC
CONSTANTS MaxN, Rule, MaxDraws, WithMask
VARIABLES n, b, neff, order, cur, served, last, draws, reset
vars == <<n, b, neff, order, cur, served, last, draws, reset>>

Perms(k) == {p \in [1..k -> 1..k] : \A i, j \in 1..k : i # j => p[i] # p[j]}
BIG == 1000000          \* stands for int32max - b - 1 (first draw always reshuffles)
Act == 1..neff
Ids == 1..n

Init == /\ n \in 1..MaxN
        /\ b \in 1..MaxN /\ b <= n
        /\ neff \in (IF WithMask THEN 1..MaxN ELSE {n}) /\ neff <= n
        /\ order = [k \in 1..n |-> k]
        /\ cur = BIG /\ served = {} /\ last = <<>> /\ draws = 0 /\ reset = FALSE

Draw(q, c2) ==
    /\ draws < MaxDraws
    /\ DrawOK(Rule, order, Act, cur, b, neff, q, c2, Slice(q, c2, n, b))
    /\ order' = q /\ cur' = c2 /\ last' = Slice(q, c2, n, b)
    /\ reset' = ResetCond(Rule, cur, b, neff)
    /\ served' = NextServed(c2, last', served)
    /\ draws' = draws + 1
    /\ UNCHANGED <<n, b, neff>>

Next == \E q \in Perms(n), c2 \in {0, cur + b} : Draw(q, c2)
Spec == Init /\ [][Next]_vars

(* ---------------- properties ---------------- *)
TypeOK == /\ Len(order) = n /\ (cur = BIG \/ (cur >= 0 /\ cur < neff)) /\ Len(last) \in {0, b}
StoreIsPermutation == IsPermOf(order, Ids)                  \* drawing only permutes the store
BatchFromStore == SeqRange(last) \subseteq SeqRange(order)   \* C08: every batch is a slice of it
BatchInsideWindow == last = <<>> \/ last = Slice(order, cur, n, b)
ActiveStayActive == ActiveIds(order, Act) = 1..neff           \* p-mask keeps the active set in front
NoRepeatWhenDivides ==
    [][ (neff % b = 0 /\ ~reset') => SeqRange(last') \cap served = {} ]_vars
CoverBeforeReshuffle ==
    [][ (reset' /\ cur # BIG) => ActiveIds(order, Act) \subseteq served ]_vars
PromptReshuffle ==
    [][ (cur # BIG /\ ActiveIds(order, Act) \subseteq served) => reset' ]_vars
MonitorAgrees ==   \* the trace monitor's verdict accepts every step the model can take
    [][ DrawVerdict(Rule, cur = BIG, Ids, order, Act, cur, b, neff, served, order', cur', last')
        = "ok" ]_vars
=============================================================================
