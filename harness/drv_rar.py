"""
Driver for residual-adaptive refinement (C16 C17): drives the REAL generators through
init_rar / get_batch / trigger_rar in solver order (mode "direct"), or through jinns.solve
(mode "solve"), and projects every state to the abstract state of spec/RarOps.tla.

The residual landscape is crafted (a known function of the point), so the driver can rank the
candidates reported by hook H1 independently of the code's own ranking.
"""

from __future__ import annotations

import math

import numpy as np

TOL = 1e-4


def _np(a):
    return np.asarray(a)


class Reg:
    def __init__(self):
        self.map = {}
        self.dup = False
        self.n = 0

    def add(self, r):
        key = np.ascontiguousarray(r).tobytes()
        if key in self.map:
            self.dup = True
            return self.map[key]
        self.n += 1
        self.map[key] = self.n
        return self.n

    def id(self, r):
        return self.map.get(np.ascontiguousarray(r).tobytes(), 0)

    def ids(self, rows):
        return [self.id(r) for r in rows]


def _ranks(vals, TOL=TOL):
    """dense ranks of real values, near-ties (relative gap < TOL) share a rank"""
    vals = np.asarray(vals, dtype=np.float64)
    order = np.argsort(vals, kind="stable")
    scale = max(1e-12, float(np.max(np.abs(vals)))) if len(vals) else 1.0
    ranks = np.zeros(len(vals), dtype=int)
    r = 1
    for k, idx in enumerate(order):
        if k > 0 and vals[idx] - vals[order[k - 1]] > TOL * scale and vals[idx] != vals[order[k - 1]]:
            r += 1
        ranks[idx] = r
    return [int(v) for v in ranks], (len(set(ranks.tolist())) == len(vals))


def _landscape(kind, name):
    """returns (jax residual fn, exact residual fn on numpy scalars)"""
    import jax.numpy as jnp

    f64 = lambda v: np.asarray(v, dtype=np.float64)
    if kind == "ode":
        if name == "mono":
            return (lambda t: t), (lambda t: float(t))
        if name == "anti":
            return (lambda t: 2.0 - t), (lambda t: 2.0 - float(t))
        return (lambda t: 1.0 - jnp.abs(t - 0.4)), (lambda t: 1.0 - abs(float(t) - 0.4))
    if kind == "statio":
        if name == "mono":
            return (lambda x: x[0] + 2.0 * jnp.sum(x[1:])), (lambda x: float(x[0]) + 2.0 * float(np.sum(f64(x[1:]))))
        if name == "anti":
            return (lambda x: 5.0 - x[0] - 2.0 * jnp.sum(x[1:])), (lambda x: 5.0 - float(x[0]) - 2.0 * float(np.sum(f64(x[1:]))))
        return (lambda x: 2.0 - jnp.sum(jnp.abs(x - 0.4))), (lambda x: 2.0 - float(np.sum(np.abs(f64(x) - 0.4))))
    if name == "mono":
        return (lambda t, x: t + 3.0 * x[0]), (lambda t, x: float(t) + 3.0 * float(x[0]))
    if name == "anti":
        return (lambda t, x: 6.0 - 3.0 * t - x[0]), (lambda t, x: 6.0 - 3.0 * float(t) - float(x[0]))
    return (lambda t, x: 3.0 - jnp.abs(t - 0.4) - 2.0 * jnp.abs(x[0] - 0.6)), (
        lambda t, x: 3.0 - abs(float(t) - 0.4) - 2.0 * abs(float(x[0]) - 0.6))


def _build(cfg):
    import jax
    import jax.numpy as jnp
    import equinox as eqx
    import jinns
    from jinns.loss import ODE, PDEStatio, PDENonStatio
    from jinns.utils._pinn import PINN

    kind = cfg["kind"]
    dim = cfg.get("dim", 1)
    rar = dict(start_iter=cfg["start"], update_every=cfg["every"])
    axes = []
    if kind in ("ode", "nonstatio"):
        rar.update(sample_size_times=cfg["sample_t"], selected_sample_size_times=cfg["sel_t"])
        axes.append(dict(name="times", cap=cfg["cap_t"], nstart=cfg["nstart_t"], sel=cfg["sel_t"], sample=cfg["sample_t"], b=cfg["b_t"]))
    if kind in ("statio", "nonstatio"):
        rar.update(sample_size_omega=cfg["sample_x"], selected_sample_size_omega=cfg["sel_x"])
        axes.append(dict(name="omega", cap=cfg["cap_x"], nstart=cfg["nstart_x"], sel=cfg["sel_x"], sample=cfg["sample_x"], b=cfg["b_x"]))
    key = jax.random.PRNGKey(cfg["seed"])
    lo, hi = cfg.get("box", [0.0, 1.0])
    lo2, hi2 = cfg.get("boxy", [lo, hi])          # bounds of the second space coordinate
    tlo, thi = cfg.get("tbox", [lo, hi])          # time interval
    xlo, xhi = (lo, lo2)[:dim] if dim <= 2 else (lo,) * dim, (hi, hi2)[:dim] if dim <= 2 else (hi,) * dim
    bnds = dict(times=(np.array([tlo]), np.array([thi])), omega=(np.array(xlo), np.array(xhi)))
    if kind == "ode":
        g = jinns.data.DataGeneratorODE(key, cfg["cap_t"], tlo, thi, cfg["b_t"], "uniform", rar, cfg["nstart_t"])
        eqt = "ODE"
    elif kind == "statio":
        g = jinns.data.CubicMeshPDEStatio(key=key, n=cfg["cap_x"], nb=None, omega_batch_size=cfg["b_x"], omega_border_batch_size=None,
                                          dim=dim, min_pts=tuple(xlo), max_pts=tuple(xhi), rar_parameters=rar, n_start=cfg["nstart_x"])
        eqt = "statio_PDE"
    else:
        g = jinns.data.CubicMeshPDENonStatio(key=key, n=cfg["cap_x"], nb=None, nt=cfg["cap_t"], omega_batch_size=cfg["b_x"],
                                             omega_border_batch_size=None, temporal_batch_size=cfg["b_t"], dim=dim, min_pts=tuple(xlo),
                                             max_pts=tuple(xhi), tmin=tlo, tmax=thi, rar_parameters=rar, n_start=cfg["nstart_x"],
                                             nt_start=cfg["nstart_t"], cartesian_product=True)
        eqt = "nonstatio_PDE"

    class Net(eqx.Module):
        w: jax.Array

        def __call__(self, z):
            return self.w * jnp.sum(z, keepdims=True)

    u = PINN(mlp=Net(jnp.array([1.0])), slice_solution=jnp.s_[:], eq_type=eqt, input_transform=lambda i, p: i,
             output_transform=lambda i, o, p: o)
    rfun, rexact0 = _landscape(kind, cfg.get("land", "mono"))
    # pdep: the landscape depends on the TRAINED network parameter w: w * mono + (1 - w) * anti; the driver's optimizer makes w alternate
    # between 0 and 1, so the ranking of the candidates flips at every iteration: the refinement must rank with the parameters AFTER the
    # gradient step of its iteration
    pdep = bool(cfg.get("pdep")) and not cfg.get("sys") and not cfg.get("het")
    if pdep:
        f_m, e_m = _landscape(kind, "mono")
        f_a, e_a = _landscape(kind, "anti")
        _W = [1.0]
        rexact0 = lambda *a: _W[0] * e_m(*a) + (1.0 - _W[0]) * e_a(*a)
    vec = cfg.get("ret", "scalar") == "vec"
    vec2 = cfg.get("ret", "scalar") == "vec2"      # two components of opposite sign: |r|^2 = f^2 + (0.1 - 1.1 f)^2, sum = 0.1 (1 - f)
    if vec2:
        rexact = lambda *a: rexact0(*a) ** 2 + (0.1 - 1.1 * rexact0(*a)) ** 2      # squared norm of the two components
    else:
        rexact = lambda *a: rexact0(*a) ** 2

    def shape(r):
        r = jnp.squeeze(r)
        if vec2:
            return jnp.stack([r, 0.1 - 1.1 * r])
        return r[None] if vec else r

    # het: the landscape enters through a HETEROGENEOUS equation parameter `a` (its user function of the point gives the landscape, its
    # raw value is a constant): the residual the refinement must rank is the one of `dynamic_loss.evaluate`, maps applied
    het = bool(cfg.get("het")) and not cfg.get("sys")
    hetmap = None
    if pdep:
        _rf = rfun
        rfun = None
    def L(params, *pt):
        if not pdep:
            return rfun(*pt)
        w = params.nn_params.w[0]
        return w * f_m(*pt) + (1.0 - w) * f_a(*pt)

    if kind == "ode":
        class Eq(ODE):
            def equation(self, t, u, params):
                return shape((params.eq_params["a"] if het else L(params, jnp.squeeze(t))) + 0.0 * jnp.sum(u(t, params)))
        if het:
            hetmap = {"a": lambda t, u, p: rfun(jnp.squeeze(t))}
    elif kind == "statio":
        class Eq(PDEStatio):
            def equation(self, x, u, params):
                return shape((params.eq_params["a"] if het else L(params, x)) + 0.0 * jnp.sum(u(x, params)))
        if het:
            hetmap = {"a": lambda x, u, p: rfun(x)}
    else:
        class Eq(PDENonStatio):
            def equation(self, t, x, u, params):
                return shape((params.eq_params["a"] if het else L(params, jnp.squeeze(t), x)) + 0.0 * jnp.sum(u(t, x, params)))
        if het:
            hetmap = {"a": lambda t, x, u, p: rfun(jnp.squeeze(t), x)}
    if het:
        _Eq0 = Eq
        Eq = lambda Tmax: _Eq0(Tmax=Tmax, eq_params_heterogeneity=hetmap)

    params = jinns.parameters.Params(nn_params=u.init_params(), eq_params={"a": jnp.array(0.5)} if het else {})
    import warnings
    if cfg.get("sys"):
        # a system of two equations sharing one unknown: residuals f and 0.1 - 1.1 f (opposite signs); the squared residual of
        # the system is the SUM of the equations' squared residuals
        def comp(r, j):
            r = jnp.squeeze(r)
            v = r if j == 0 else 0.1 - 1.1 * r
            return v if cfg.get("ret") == "scalar" else v[None]        # equations of a system may return 0-d residuals too
        if kind == "ode":
            def mk(j):
                class E(ODE):
                    def equation(self, t, ud, pd):
                        return comp(rfun(jnp.squeeze(t)) + 0.0 * jnp.sum(ud["a"](t, pd.extract_params("a"))), j)
                return E(Tmax=1)
        elif kind == "statio":
            def mk(j):
                class E(PDEStatio):
                    def equation(self, x, ud, pd):
                        return comp(rfun(x) + 0.0 * jnp.sum(ud["a"](x, pd.extract_params("a"))), j)
                return E(Tmax=1)
        else:
            def mk(j):
                class E(PDENonStatio):
                    def equation(self, t, x, ud, pd):
                        return comp(rfun(jnp.squeeze(t), x) + 0.0 * jnp.sum(ud["a"](t, x, pd.extract_params("a"))), j)
                return E(Tmax=1)
        pdict = jinns.parameters.ParamsDict(nn_params={"a": u.init_params()}, eq_params={})
        with warnings.catch_warnings():
            warnings.simplefilter("ignore")
            if kind == "ode":
                loss = jinns.loss.SystemLossODE(u_dict={"a": u}, dynamic_loss_dict={"e1": mk(0), "e2": mk(1)},
                                                loss_weights=jinns.loss.LossWeightsODEDict(dyn_loss=1.0, initial_condition=1.0, observations=1.0),
                                                params_dict=pdict)
            else:
                loss = jinns.loss.SystemLossPDE(u_dict={"a": u}, dynamic_loss_dict={"e1": mk(0), "e2": mk(1)},
                                                loss_weights=jinns.loss.LossWeightsPDEDict(), params_dict=pdict)
        rex = lambda *a: rexact0(*a) ** 2 + (0.1 - 1.1 * rexact0(*a)) ** 2
        return g, loss, pdict, axes, rex, bnds
    with warnings.catch_warnings():
        warnings.simplefilter("ignore")
        if kind == "ode":
            loss = jinns.loss.LossODE(u=u, dynamic_loss=Eq(Tmax=1), initial_condition=None, params=params)
        elif kind == "statio":
            loss = jinns.loss.LossPDEStatio(u=u, dynamic_loss=Eq(Tmax=1), params=params)
        else:
            loss = jinns.loss.LossPDENonStatio(u=u, dynamic_loss=Eq(Tmax=1), params=params)
    if pdep:
        rexact.set_w = lambda w: _W.__setitem__(0, float(w))
    return g, loss, params, axes, rexact, bnds


def _axis_arrays(g, name):
    if name == "times":
        return _np(g.times), _np(g.p_times), int(g.curr_time_idx)
    return _np(g.omega), _np(g.p_omega), int(g.curr_omega_idx)


def run_case(cfg):
    """an exception raised inside jinns (constructor, init_rar, get_batch, trigger_rar, solve) is a datum (codeexc); an exception of
    the harness is a driver crash"""
    import os
    import traceback

    try:
        return _run_case(cfg)
    except Exception as ex:  # noqa
        frames = traceback.extract_tb(ex.__traceback__)
        inside = [f for f in frames if os.sep + "jinns" + os.sep in f.filename and "/verif/" not in f.filename]
        if not inside or "/verif/" in frames[-1].filename:
            raise
        return dict(cfg=cfg, kind=cfg["kind"], codeexc=f"{type(ex).__name__} at {os.path.basename(inside[-1].filename)}:{inside[-1].lineno}: {str(ex)[:160]}")


def _run_case(cfg):
    import jax
    from jinns import _verif
    from jinns.solver._rar import init_rar, trigger_rar

    if not _verif.ENABLED:
        raise RuntimeError("JINNS_VERIF hooks are not enabled in the driver process")
    kind = cfg["kind"]
    g, loss, params, axes, rexact, bnds = _build(cfg)
    if cfg.get("mode") == "solve":
        return _run_solve(cfg, g, loss, params, axes, rexact, bnds)
    tr = dict(cfg=cfg, kind=kind, start=cfg["start"], every=cfg["every"], hasDraw=True, fresh=True, retOK=True, skipped="", exc="", steps0=0,
              axes=[], ev=[])
    g, rt, rf = init_rar(g)
    if cfg.get("resume"):
        # an earlier training call of cfg["resume"] iterations; the recorded history is the NEXT call on the returned generator
        try:
            for i in range(cfg["resume"]):
                g, _batch = g.get_batch()
                _, _, g = trigger_rar(i, loss, params, g, rt, rf)
            jax.effects_barrier()
            g, rt, rf = init_rar(g)
        except Exception as ex:  # noqa
            tr["codeexc"] = f"{type(ex).__name__}: {str(ex)[:160]}"
            return tr
        tr["fresh"] = False
        tr["steps0"] = int(g.rar_iter_nb)
    regs = []
    for ax in axes:
        arr, p, cur = _axis_arrays(g, ax["name"])
        reg = Reg()
        init = [reg.add(r) for r in arr]
        regs.append(reg)
        tr["axes"].append(dict(ax, init=init, cur0=cur, mask0=[bool(v != 0) for v in p]))
    _verif.drain()
    for i in range(cfg["iters"]):
        g, _batch = g.get_batch()
        draw = []
        for a, ax in enumerate(axes):
            arr, p, cur = _axis_arrays(g, ax["name"])
            draw.append(dict(cur=cur, order=regs[a].ids(arr)))
        nb0 = int(g.rar_iter_nb)
        try:
            _, _, g = trigger_rar(i, loss, params, g, rt, rf)
            jax.effects_barrier()
        except Exception as ex:  # the code under test raised: a datum, not a failure of the driver
            tr["codeexc"] = f"{type(ex).__name__}: {str(ex)[:160]}"
            return tr
        hook = [e for e in _verif.drain() if e["kind"] == "rar_step"]
        stepped = int(g.rar_iter_nb) != nb0
        after, pairs = [], []
        cands = {}
        if hook:
            h = hook[-1]
            for a, ax in enumerate(axes):
                c = _np(h["cand_" + ax["name"]])
                cands[ax["name"]] = c
        for a, ax in enumerate(axes):
            cand_ids, rank, cand_in = [], [], []
            if ax["name"] in cands:
                c = cands[ax["name"]]
                cand_ids = [regs[a].add(r) for r in c]
                dt = c.dtype.type
                blo, bhi = (v.astype(c.dtype) for v in bnds[ax["name"]])
                cand_in = [bool(np.all((blo <= r) & (r <= bhi))) for r in c]
                if len(axes) == 1:
                    rank, _ = _ranks([rexact(r) for r in c])
            arr, p, cur = _axis_arrays(g, ax["name"])
            after.append(dict(order=regs[a].ids(arr), mask=[bool(v != 0) for v in p], cand=cand_ids, rank=rank, candIn=cand_in))
        if hook and len(axes) == 2:
            ct, cx = cands["times"], cands["omega"]
            vals = [[rexact(t, x) for x in cx] for t in ct]
            flat, tie_free = _ranks([v for row in vals for v in row])
            if not tie_free:
                tr["skipped"] = "near-tie in the pair landscape"
                return tr
            pairs = [flat[r * len(cx):(r + 1) * len(cx)] for r in range(len(ct))]
        tr["ev"].append(dict(i=i, draw=draw, stepped=bool(stepped), hooked=bool(hook), steps=int(g.rar_iter_nb),
                             since=int(g.rar_iter_from_last_sampling), after=after, pairs=pairs))
    if any(r.dup for r in regs):
        tr["skipped"] = "duplicate floats"
    return tr


def _ev_axis(e, name):
    if name == "times":
        return _np(e["times"]), _np(e["p_times"]), int(e["curr_time_idx"])
    return _np(e["omega"]), _np(e["p_omega"]), int(e["curr_omega_idx"])


def _run_solve(cfg, g, loss, params, axes, rexact, bnds):
    """End-to-end: the same trace, recorded by hooks H1/H2 while jinns.solve runs."""
    import jax
    import optax
    import jinns
    from jinns import _verif

    kind = cfg["kind"]
    tr = dict(cfg=cfg, kind=kind, start=cfg["start"], every=cfg["every"], hasDraw=True, fresh=False, retOK=True, skipped="", exc="", steps0=0,
              axes=[], ev=[])
    if cfg.get("resume"):
        try:
            g = jinns.solve(n_iter=cfg["resume"], init_params=params, data=g, loss=loss, optimizer=optax.sgd(0.0), verbose=False)[3]
            jax.effects_barrier()
        except Exception as ex:  # noqa
            tr["codeexc"] = f"{type(ex).__name__}: {str(ex)[:160]}"
            return tr
        tr["steps0"] = int(g.rar_iter_nb)
    regs = []
    for ax in axes:
        arr, p, cur = _axis_arrays(g, ax["name"])
        reg = Reg()
        for r in arr:
            reg.add(r)
        regs.append(reg)
    _verif.drain()
    pdep = hasattr(rexact, "set_w")
    optimizer = optax.sgd(0.0)
    if pdep:
        import jax.numpy as jnp
        # w: 1 -> 0 -> 1 -> ... (the update of iteration i is -1 for even i, +1 for odd i; gradients are ignored)
        optimizer = optax.GradientTransformation(lambda p: jnp.array(0), lambda gr, st, p=None: (
            jax.tree.map(lambda x: jnp.where(st % 2 == 0, -1.0, 1.0) * jnp.ones_like(x), gr), st + 1))
    try:
        out = jinns.solve(n_iter=cfg["iters"], init_params=params, data=g, loss=loss, optimizer=optimizer, verbose=False)
        jax.effects_barrier()
    except Exception as ex:  # noqa
        tr["codeexc"] = f"{type(ex).__name__}: {str(ex)[:160]}"
        return tr
    evs = _verif.drain()
    init = [e for e in evs if e["kind"] == "solve_init"]
    if len(init) != 1:
        tr["exc"] = "hook solve_init missing"
        return tr
    for a, ax in enumerate(axes):
        arr, p, cur = _ev_axis(init[0], ax["name"])
        tr["axes"].append(dict(ax, init=regs[a].ids(arr), cur0=cur, mask0=[bool(v != 0) for v in p]))
    k = 0
    evs = [e for e in evs if e["kind"] != "solve_init"]
    nb_prev = tr["steps0"]
    while k < len(evs):
        if evs[k]["kind"] != "solve_draw":
            tr["exc"] = f"unexpected hook order at {k}: {evs[k]['kind']}"
            return tr
        d = evs[k]
        k += 1
        hook = None
        if k < len(evs) and evs[k]["kind"] == "rar_step":
            hook = evs[k]
            k += 1
        if k >= len(evs) or evs[k]["kind"] != "solve_iter":
            tr["exc"] = f"hook solve_iter missing after draw {int(d['i'])}"
            return tr
        it = evs[k]
        k += 1
        if pdep:
            rexact.set_w(0.0 if int(it["i"]) % 2 == 0 else 1.0)        # the parameters AFTER the gradient step of iteration i
        draw = []
        for a, ax in enumerate(axes):
            arr, p, cur = _ev_axis(d, ax["name"])
            draw.append(dict(cur=cur, order=regs[a].ids(arr)))
        cands = {}
        if hook is not None:
            for ax in axes:
                cands[ax["name"]] = _np(hook["cand_" + ax["name"]])
        after, pairs = [], []
        for a, ax in enumerate(axes):
            cand_ids, rank, cand_in = [], [], []
            if ax["name"] in cands:
                c = cands[ax["name"]]
                cand_ids = [regs[a].add(r) for r in c]
                dt = c.dtype.type
                blo, bhi = (v.astype(c.dtype) for v in bnds[ax["name"]])
                cand_in = [bool(np.all((blo <= r) & (r <= bhi))) for r in c]
                if len(axes) == 1:
                    rank, _ = _ranks([rexact(r) for r in c])
            arr, p, cur = _ev_axis(it, ax["name"])
            after.append(dict(order=regs[a].ids(arr), mask=[bool(v != 0) for v in p], cand=cand_ids, rank=rank, candIn=cand_in))
        if hook is not None and len(axes) == 2:
            ct, cx = cands["times"], cands["omega"]
            flat, tie_free = _ranks([rexact(t, x) for t in ct for x in cx])
            if not tie_free:
                tr["skipped"] = "near-tie in the pair landscape"
                return tr
            pairs = [flat[r * len(cx):(r + 1) * len(cx)] for r in range(len(ct))]
        nb = int(it["rar_iter_nb"])
        tr["ev"].append(dict(i=int(it["i"]), draw=draw, stepped=bool(nb != nb_prev), hooked=hook is not None, steps=nb,
                             since=int(it["rar_iter_from_last_sampling"]), after=after, pairs=pairs))
        nb_prev = nb
    # the returned generator must be the state after the last iteration
    gret = out[3]
    for a, ax in enumerate(axes):
        arr, p, cur = _axis_arrays(gret, ax["name"])
        if tr["ev"] and (regs[a].ids(arr) != tr["ev"][-1]["after"][a]["order"] or [bool(v != 0) for v in p] != tr["ev"][-1]["after"][a]["mask"]):
            tr["retOK"] = False
    if len(tr["ev"]) != cfg["iters"]:
        tr["exc"] = f"{len(tr['ev'])} iterations recorded, {cfg['iters']} requested"
    if pdep and abs(float(np.asarray(out[0].nn_params.w)[0]) - (1.0 if cfg["iters"] % 2 == 0 else 0.0)) > 1e-6:
        tr["exc"] = "driver: the scripted parameter sequence was not followed"
    if any(r.dup for r in regs):
        tr["skipped"] = "duplicate floats"
    return tr
