"""Driver: the real ValidationLoss called directly along a script of loss values (spec/Validation.tla)."""
from __future__ import annotations

import math

import numpy as np

NP = 4


def run_case(sc):
    import warnings

    import equinox as eqx
    import jax
    import jax.numpy as jnp
    import jinns
    from jinns.loss import ODE
    from jinns.utils._pinn import PINN
    from jinns.validation._validation import ValidationLoss

    warnings.simplefilter("ignore")
    vals, patience, early = list(sc["vals"]), sc["patience"], bool(sc["earlyOn"])
    bv = sc.get("bv", 2)
    POW4 = jnp.array([4.0 ** k for k in range(16)])
    TABLE = jnp.asarray(np.array([0.0] + [float(v) for v in vals] + [0.0]))

    class Net(eqx.Module):
        w: jax.Array

        def __call__(self, t):
            idx = jnp.round(t[0] * NP).astype(int)
            return jnp.stack([self.w[0], jnp.sqrt(POW4[idx])])

    u = PINN(mlp=Net(jnp.array([1.0])), slice_solution=jnp.s_[:], eq_type="ODE", input_transform=lambda i, p: i,
             output_transform=lambda i, o, p: o)

    class EqV(ODE):
        def equation(self, t, u, params):
            out = u(t, params)
            k = jnp.round(params.eq_params["call"]).astype(int)
            return jnp.stack([out[1], TABLE[k] * 4096.0 + 0.0 * out[0], jnp.squeeze(params.eq_params["nu"])])

    def params_at(k):
        return jinns.parameters.Params(nn_params=u.init_params(), eq_params={"call": jnp.array(float(k)), "nu": jnp.array(0.0)})

    loss = jinns.loss.LossODE(u=u, dynamic_loss=EqV(Tmax=1), initial_condition=None, obs_slice=jnp.s_[1:2], params=params_at(0))
    seed = sc.get("seed", 0)
    vdata = jinns.data.DataGeneratorODE(jax.random.PRNGKey(seed), NP, 0.0, 1.0, bv, method="grid")
    vobs = vpar = None
    if sc.get("vobs"):
        vobs = jinns.data.DataGeneratorObservations(jax.random.PRNGKey(seed + 1), bv, ((4 + jnp.arange(NP)) / NP)[:, None], jnp.zeros((NP, 1)))
    if sc.get("vpar"):
        vpar = jinns.data.DataGeneratorParameter(jax.random.PRNGKey(seed + 2), NP, bv, user_data={"nu": jnp.array([2.0 ** (8 + k) for k in range(NP)])})
    v = ValidationLoss(loss=loss, validation_data=vdata, validation_param_data=vpar, validation_obs_data=vobs, call_every=1,
                       early_stopping=early, patience=patience)

    def tids(ts):
        return [int(round(float(t) * NP)) for t in np.asarray(ts).ravel()]

    def gstate(v):
        out = [dict(cur=int(v.validation_data.curr_time_idx), order=[i + 1 for i in tids(v.validation_data.times)])]
        if vobs is not None:
            out.append(dict(cur=int(v.validation_obs_data.curr_idx), order=[int(i) + 1 for i in np.asarray(v.validation_obs_data.indices)]))
        if vpar is not None:
            out.append(dict(cur=int(v.validation_param_data.curr_param_idx["nu"]),
                            order=[int(round(math.log2(float(x)))) - 8 + 1 for x in np.asarray(v.validation_param_data.param_n_samples["nu"]).ravel()]))
        return out

    g0 = gstate(v)
    tr = dict(sc=sc, patience=patience, earlyOn=early, gens=[dict(init=s["order"], cur0=s["cur"], b=bv) for s in g0], ev=[])
    # reference: the value the k-th invocation must observe = its own successive batches
    rd, ro, rp = vdata, vobs, vpar
    for k, q in enumerate(vals):
        e = dict(exc="", value=0, crit=0, improved=False, stop=False, count=0, best=0, gens=g0)
        rd, bt = rd.get_batch()
        m = sum(4 ** i for i in tids(bt.temporal_batch))
        if ro is not None:
            ro, ob = ro.get_batch()
            m += sum(4 ** i for i in tids(ob["pinn_in"]))
        if rp is not None:
            rp, pb = rp.get_batch()
            m += sum(int(round(float(x))) ** 2 for x in np.asarray(pb["nu"]).ravel())
        e["value"] = int(q) ** 2 * (4 ** 12) * bv + m
        try:
            v, stop, crit, upd = v(params_at(k + 1))
            c = float(crit) * bv
            e.update(crit=int(c) if c == int(c) and abs(c) < 2 ** 31 else -1, improved=bool(upd), stop=bool(stop),
                     count=int(v.counter), gens=gstate(v))
            b = float(v.best_val_loss) * bv
            e["best"] = int(b) if (b == int(b) and abs(b) < 2 ** 31) else 2147483647
        except Exception as ex:  # noqa
            e["exc"] = f"{type(ex).__name__}: {str(ex)[:160]}"
        tr["ev"].append(e)
    return tr
