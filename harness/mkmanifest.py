"""Generates /verif/MANIFEST.json from the table below (single place to edit)."""
import json, os

V = os.path.dirname(os.path.dirname(os.path.abspath(__file__)))
CHECKS = {
    "C08": dict(cat="model_checking", tech="TLC model checking of Batching.tla + trace validation (Trace_DataGen.tla) of real generator histories",
                text="TLC exhausts every history of one store (all sizes <= 6, all permutations) for 'every batch is a window of the permuted store'; "
                     "traces of the real ODE/stationary/non-stationary generators (uniform+grid, 4 boxes, n up to 128 for the count clause) are "
                     "validated event by event against the construction/shape/facet/product clauses of the spec; constructor contracts (Contracts.tla: accepted configurations, normalised nb / border batch) are tried on the real constructors.",
                note="float membership in the closed box / on a facet is evaluated per stored point by the projection; PRNG keys sampled; TLC and the projection are trusted", ref="3.1 3.2 C08"),
    "C09": dict(cat="model_checking", tech="TLC model checking of Batching.tla + Apalache inductive invariant of CursorInd.tla (unbounded sizes) + trace validation (Trace_DataGen.tla) over all 1<=b<=n<=8 per store kind",
                text="The epoch/cursor algorithm is model-checked for all n<=6, b<=n, active prefixes and permutations (NoRepeatWhenDivides, CoverBeforeReshuffle, "
                     "PromptReshuffle); every get_batch of the real generators (7 store kinds, all b<=n<=8, border batch sizes independent of the interior batch size, 3 epochs, with/without RAR mask, eager and through one compiled get_batch) must be a step of that model; "
                     "Apalache discharges, for ALL sizes, the inductive invariant of the cursor/capacity arithmetic (window inside the store, no clamping when b divides the active count).",
                note="point identity = exact bytes; PRNG sampled in traces, exhausted in the model", ref="3.1 C09"),
    "C14": dict(cat="model_checking", tech="TLC model checking of DataGen.tla + trace validation (Trace_DataGen.tla)",
                text="Products/pairings are model-checked on three independent stores; each row of every real space-time batch is decoded to (time id, point id) and "
                     "must equal the time-major product (or pairing) of the sub-batches dictated by the new generator state, per facet, across reshuffles; the product / pairing flag is given as Python bool, numpy bool and integer.",
                note="point identity = exact bytes; PRNG sampled", ref="3.2 C14"),
    "C15": dict(cat="model_checking", tech="TLC model checking of Batching.tla (index vector) + trace validation (Trace_DataGen.tla) with tagged tables",
                text="Tagged user tables make every batch row decode to the original row of each of its parts; TLC checks row alignment, shuffled-index conformance, "
                     "per-key parameter sources (table over range, both table shapes) and multi-network loaders (incl. differently ordered user dictionaries) for every table size <= 8 and batch size; loader constructor contracts (Contracts.tla).",
                note="tables are crafted (distinct tagged floats); PRNG sampled", ref="3.2 C15"),
    "C16": dict(cat="model_checking", tech="TLC model checking of Rar.tla / RarStore.tla + Apalache inductive invariant of ScheduleInd.tla (unbounded schedule) + trace validation (Trace_Rar.tla) of generators driven directly and through jinns.solve",
                text="All schedules (start, every), capacities and per-axis sizes up to the bounds are model-checked (steps exactly at start+k*every while there is room, "
                     "active count = nstart + J*sel per axis, never beyond the store); every iteration of the real ODE/stationary/non-stationary generators, driven in solver "
                     "order and end-to-end through solve (hooks H1/H2), must satisfy the same schedule and count clauses until the store is full; chained training calls on the returned generator (Restart action of Rar.tla, "
                     "witness variant OnRestart=keep) and the repository's own refinement test (traced with the hooks) are validated by the same monitor.",
                note="step = change of the generator's step counter; active = non-zero probability; PRNG sampled; hooks H2 used only for the end-to-end leg", ref="3.3 C16"),
    "C17": dict(cat="model_checking", tech="TLC model checking of RarStore.tla / Rar.tla + trace validation (Trace_Rar.tla) with hook H1 candidates and independently recomputed residual ranks",
                text="Store-level model with every reshuffle and every top set; in the traces the points written by each real refinement step must be candidates reported by hook H1 with "
                     "the highest independently recomputed residual (top pairs for product domains), written only into the inactive window, with every active point surviving every draw, reshuffle and step; single and system losses (vector and scalar residuals, landscapes given directly or through a heterogeneous equation parameter), "
                     "chained training calls, and the repository's own refinement test (ranks from the residuals reported by the hook) are included.",
                note="candidates come from the guarded hook H1; crafted residual landscapes; near-ties tolerated; PRNG sampled", ref="3.3 C17"),
    "C07": dict(cat="model_checking", tech="TLC model checking of Solve.tla + replay of TLC-emitted scenarios and driver families into jinns.solve, validated by Trace_Solve.tla (tagged arithmetic)",
                text="The loop (probe draw, draw, gradient step, validation, RAR, store, guard) is model-checked for all n<=6; scenarios and driver families (epoch wrap, batch sizes dividing or not, "
                     "parameter/observation generators, tracked specs, sgd/adam/chained optimizers, resumed runs) run through the real solve with every history entry decoding to (parameter version, batch ids); "
                     "Trace_Solve recomputes the expected result with the model's own operators and compares every entry, the returned parameters, optimizer state and generator. "
                     "The scenarios are realised as ODE, stationary-PDE and non-stationary-PDE training problems, jitted and sharded (non-jitted) loop. "
                     "Extra legs: every generator kind as advanced by solve (hook H2) validated against Batching.tla; the repository's own solver tests traced with hook H2 and validated the same way; the batch-size contract of solve (Contracts.tla).",
                note="tagged arithmetic under x64 (exact integers); for sgd/adam/chain only loop structure is compared; n_iter=0 with tracking/validation/aux generators is degenerate (cannot be traced) and not claimed", ref="3.4 C07"),
    "C18": dict(cat="fault_enumeration", tech="TLC enumeration of the fault space on Solve.tla + replay into jinns.solve with real NaN injectors, validated by Trace_Solve.tla",
                text="Every fault position x origin (loss value, gradient of a network leaf, gradient of an equation parameter, optimizer update) x validation kind is enumerated by TLC; a stratified selection of the "
                     "emitted scenarios is realised with real injectors (NaN residual, custom_vjp poisoning one leaf or one entry of a two-entry leaf, NaN optimizer update of a leaf or of one entry) and the returned parameters, histories and untouched entries are decoded exactly.",
                note="tagged arithmetic under x64; per-leaf NaN pattern of each origin is part of the specification", ref="3.4 C18"),
    "C19": dict(cat="model_checking", tech="TLC model checking of Solve.tla/SolveOps (ValidationLoss state machine) + replay of TLC-emitted validation scripts into jinns.solve, validated by Trace_Solve.tla",
                text="All validation outcome scripts (user module: improve/stop per call; built-in ValidationLoss: loss values, patience 0..2, early stopping on/off), periods and iteration counts are model-checked; "
                     "scenarios are replayed with a scripted AbstractValidationModule or the real ValidationLoss with its own (mini-batched) collocation, parameter and observation generators; criterion history, stop iteration and best parameters decode exactly. "
                     "Extra leg: Validation.tla (ValidationLoss state machine) model-checked and every value script replayed by calling the real module directly (Trace_Validation.tla).",
                note="tagged arithmetic under x64; ValidationLoss criterion = rank^2*4^12 + batch tags so that stale validation generators are visible", ref="3.4 C19"),
    "C01": dict(cat="model_checking", tech="TLC enumeration of the operator configuration space (MC_Operators.tla) + exact conformance of jinns' operators against Operators.tla (Trace_Func.tla)",
                text="TLC enumerates dim 1..4 x time? x operator x every monomial of total degree <= 3 (the determining set) per output component; the real reverse-mode operators are evaluated on "
                     "polynomial PINNs under x64 and must equal the exact polynomial calculus of the specification (spatial derivatives only), plus seeded random polynomial fields; the forward-mode "
                     "(separable network) implementations of the same operators are checked on polynomial SPINNs (MC_FwdRev.tla, operators only), including batches smaller than the dimension.",
                note="polynomial fields only; JAX AD on transcendental activations is trusted", ref="2.3 3.6 C01"),
    "C03": dict(cat="model_checking", tech="TLC enumeration of loss structures (MC_Loss.tla) + exact conformance of loss.evaluate against LossSemantics.tla (Trace_Func.tla)",
                text="Every structure (loss kind x residual components x weight form x batch size x subset of other terms x twins x evaluate / __call__ / weights replaced on the built object) is instantiated with polynomial networks/residuals and integer batches; "
                     "total, dynamic term and exact zeros of unconfigured terms must equal the oracle; permutation/halves/linearity are lemmas checked on the twin records; structures with an observation batch "
                     "carrying observed parameters and with heterogeneous parameters (from the C12 family) are included: the dynamic term must not see the former and must apply the latter to the caller's values.",
                note="polynomial networks and residual maps (exact under x64)", ref="3.6 C03"),
    "C04": dict(cat="model_checking", tech="TLC enumeration of all per-facet condition assignments (MC_Loss.tla) + exact conformance of the boundary term against LossSemantics!Bnd (Trace_Func.tla)",
                text="All 3^facets assignments x dims x stationary/non-stationary x global/dict x zero/non-zero f x scalar/array return x component selection x border and time batch sizes; "
                     "expected value uses outward normals and the facet order xmin, xmax, ymin, ymax.",
                note="polynomial networks; Neumann for one selected component; scalar boundary weight", ref="3.6 C04"),
    "C05": dict(cat="model_checking", tech="TLC enumeration of term structures (MC_Loss.tla) + exact conformance of the IC / normalisation / observation terms against LossSemantics.tla (Trace_Func.tla)",
                text="Initial-condition (ODE tuple, PDE function over cartesian and paired batches), normalisation (sample counts, volumes, non-constant u, sliced solution, batch times) and observation terms "
                     "(slices, weights, observed parameters entering u) are compared exactly with their definitions.",
                note="polynomial networks; normalisation of a solution slice with one or two components", ref="3.6 C05"),
    "C06": dict(cat="model_checking", tech="TLC exhaustive enumeration of derivative specifications (MC_Masks.tla) + exact gradient conformance (Trace_Func.tla)",
                text="Every assignment of {selected, not selected} to every (term, group) pair is enumerated (512 / 4096 / 32768 masks; quick: all ODE masks + a covering subset); the gradient of the total loss under each "
                     "mask must equal the exact sum of the selected per-term gradients, term values must not depend on the mask; string forms and the default are replayed too, and every loss kind is also evaluated with a parameter batch (vmapped-parameters path of each term).",
                note="u = V*k1 + k2 so that every pair has a non-zero gradient; per-term reference gradients measured with everything selected", ref="3.6 C06"),
    "C12": dict(cat="model_checking", tech="TLC enumeration of batched-key subsets and heterogeneity maps (MC_Loss.tla) + exact conformance against LossSemantics!ParamsRow/HetParams (Trace_Func.tla)",
                text="Every subset of batched keys of a 3-key parameter set x shapes x loss kinds x heterogeneity maps x observed parameters x normalisation / boundary terms next to the batch, with tagged parameter tables; every term is compared with the oracle "
                     "in which sample i sees row i of the batched keys and the caller's value of the others, and heterogeneous parameters are replaced inside the equation only.",
                note="polynomial networks/residuals/heterogeneity maps; exact under x64", ref="3.6 C12"),
    "C13": dict(cat="model_checking", tech="TLC enumeration of system structures (MC_Loss.tla) + exact conformance of SystemLossODE/SystemLossPDE against LossSemantics!SysTerms (Trace_Func.tla)",
                text="1..3 equations x 1..3 unknowns x key naming x ODE/stationary/non-stationary x scalar/dict/missing weights x per-unknown initial/boundary/observation specifications x parameter batch x unknowns as separate networks or as output slices of one shared network; "
                     "equations asymmetric in t and x; the 1x1 system = plain loss is a lemma of the oracle checked on the records.",
                note="polynomial one-output networks and equations returning shape (1,) residuals; exact under x64", ref="3.6 C13"),
    "C20": dict(cat="model_checking", tech="TLC model checking of Purity.tla (all call orders) + replay of TLC-emitted call sequences on real objects, validated by Trace_Purity.tla",
                text="Every order of evaluations (loss x batch variant x eager / jit closing over the loss / jit with the loss as an argument / value-and-grad) and draws (fresh and re-used generator states, eager/jit) up to length 3-4 is enumerated; the sequences are executed "
                     "on real losses (single and system) and generators; fingerprints of every argument before/after each call and of every result must satisfy ArgsUnchanged, repeatability and mode invariance.",
                note="bitwise cross-mode comparison only on exact-arithmetic problems (x64); generator-only sequences run in the default 32-bit mode; fingerprints hash structure, array bytes and user dictionaries", ref="3.5 C20"),
    "C02": dict(cat="model_checking", tech="TLC enumeration of equation x parameter-role x key-layout structures (MC_Equations.tla) + exact conformance of DynamicLoss.evaluate against Equations.tla (Trace_Func.tla)",
                text="For each built-in equation, every parameter in turn (and all together), Tmax 1/2/4 and every network/parameter key layout (including the solution as a later output of a multi-output network) is instantiated with integer polynomial candidates; the residual "
                     "returned by the real DynamicLoss.evaluate must equal the documented differential expression evaluated by the specification (exact rationals); the separable-network branches of the "
                     "built-in equations are checked on polynomial SPINNs (MC_FwdRev.tla, equations only).",
                note="polynomial candidates (GLV: c(1+t)^m at dyadic points); GLV oracle = log form (docstring signs are a documentation remark)", ref="3.6 C02"),
    "C10": dict(cat="model_checking", tech="TLC enumeration of wrapper structures (MC_Net.tla) + exact conformance of create_PINN/create_SPINN/create_HYPERPINN networks against Net.tla (Trace_Func.tla)",
                text="Wrapper x equation type x outputs x non-commuting input/output transforms x shared-output slices x full/bare parameters x scalar/length-one time x depth x activation; every SPINN grid slot "
                     "against sum_r prod_d f_d; HYPERPINN weights split by cumulative leaf sizes, row-major; networks built by the real factories with integer weights.",
                note="integer weights, activations identity/square; non-stationary wrappers with length-one time only", ref="3.6 C10"),
    "C11": dict(cat="model_checking", tech="TLC enumeration of operator/equation x dimension x batch structures (MC_FwdRev.tla) + exact conformance of forward-grid and reverse-pointwise implementations against SpinnPoly.tla/Operators.tla/Equations.tla",
                text="A polynomial SPINN (real create_SPINN) and its expanded polynomial PINN twin are evaluated by the forward-mode grid and reverse-mode pointwise implementations of the operators and built-in "
                     "equations; both must equal the value the specification computes from the expansion at every grid index, including batches smaller than the dimension.",
                note="polynomial feature maps (exact under x64); grid axes time first", ref="3.6 C11"),
}
NA = {}


def main():
    order = [f"C{k:02d}" for k in range(1, 21)]
    checks = []
    for pid in order:
        if pid not in CHECKS:
            continue
        c = CHECKS[pid]
        checks.append(dict(
            property_id=pid,
            quick_cmd=f"bin/check {pid} --tier quick",
            thorough_cmd=f"bin/check {pid} --tier thorough",
            evidence_file=f"/verif/evidence/{pid}.json",
            replay_cmd_template=f"bin/check {pid} --replay {{path}}",
            engine="tlc-trace",
            level_claimed=dict(category=c["cat"], text=c["text"], design_ref=c["ref"]),
            level_note=c["note"],
            technique=c["tech"],
        ))
    na = [dict(property_id=p, reason=NA.get(p, "check not built yet in this revision of /verif (planned, see DESIGN.md section 9)"))
          for p in order if p not in CHECKS]
    man = dict(
        version=1,
        setup_cmd="bin/setup",
        hooks=dict(guard="JINNS_VERIF", enable="environment variable JINNS_VERIF=1 (set by the drivers' worker processes); nothing to rebuild, jinns is imported from /repo's working tree",
                   baseline_off_cmd="bin/baseline", source_commits=["26a6aa3", "0019eef"], add_only=True),
        engines=[dict(name="tlc-trace", path="/verif/bin/check", serves_properties=[c["property_id"] for c in checks],
                      kind_free_text="explicit TLA+ specification (spec/*.tla) model-checked with TLC; conformance by trace validation of the real code against monitor specs and replay of TLC-generated scenarios")],
        checks=checks,
        not_applicable=na,
        notes="Exit codes: 0 held, 1 VIOLATION line(s), 2 machinery failure. Known findings in known_findings.json.",
    )
    with open(os.path.join(V, "MANIFEST.json"), "w") as f:
        json.dump(man, f, indent=1)
    print("MANIFEST.json written:", len(checks), "checks,", len(na), "not claimed")


if __name__ == "__main__":
    main()
