"""Generates /verif/MANIFEST.json from the table below (single place to edit)."""
import json, os

V = os.path.dirname(os.path.dirname(os.path.abspath(__file__)))
CHECKS = {
    "C08": dict(cat="model_checking", tech="TLC model checking of Batching.tla + trace validation (Trace_DataGen.tla) of real generator histories",
                text="TLC exhausts every history of one store (all sizes <= 6, all permutations) for 'every batch is a window of the permuted store'; "
                     "traces of the real ODE/stationary/non-stationary generators (uniform+grid, 4 boxes, n up to 128 for the count clause) are "
                     "validated event by event against the construction/shape/facet/product clauses of the spec.",
                note="float membership in the closed box / on a facet is evaluated per stored point by the projection; PRNG keys sampled; TLC and the projection are trusted", ref="3.1 3.2 C08"),
    "C09": dict(cat="model_checking", tech="TLC model checking of Batching.tla + trace validation (Trace_DataGen.tla) over all 1<=b<=n<=8 per store kind",
                text="The epoch/cursor algorithm is model-checked for all n<=6, b<=n, active prefixes and permutations (NoRepeatWhenDivides, CoverBeforeReshuffle, "
                     "PromptReshuffle); every get_batch of the real generators (7 store kinds, all b<=n<=8, 3 epochs, with/without RAR mask) must be a step of that model.",
                note="point identity = exact bytes; PRNG sampled in traces, exhausted in the model", ref="3.1 C09"),
    "C14": dict(cat="model_checking", tech="TLC model checking of DataGen.tla + trace validation (Trace_DataGen.tla)",
                text="Products/pairings are model-checked on three independent stores; each row of every real space-time batch is decoded to (time id, point id) and "
                     "must equal the time-major product (or pairing) of the sub-batches dictated by the new generator state, per facet, across reshuffles.",
                note="point identity = exact bytes; PRNG sampled", ref="3.2 C14"),
    "C15": dict(cat="model_checking", tech="TLC model checking of Batching.tla (index vector) + trace validation (Trace_DataGen.tla) with tagged tables",
                text="Tagged user tables make every batch row decode to the original row of each of its parts; TLC checks row alignment, shuffled-index conformance, "
                     "per-key parameter sources (table over range, both table shapes) and multi-network loaders for every table size <= 8 and batch size.",
                note="tables are crafted (distinct tagged floats); PRNG sampled", ref="3.2 C15"),
    "C16": dict(cat="model_checking", tech="TLC model checking of Rar.tla / RarStore.tla + trace validation (Trace_Rar.tla) of generators driven directly and through jinns.solve",
                text="All schedules (start, every), capacities and per-axis sizes up to the bounds are model-checked (steps exactly at start+k*every while there is room, "
                     "active count = nstart + J*sel per axis, never beyond the store); every iteration of the real ODE/stationary/non-stationary generators, driven in solver "
                     "order and end-to-end through solve (hooks H1/H2), must satisfy the same schedule and count clauses until the store is full.",
                note="step = change of the generator's step counter; active = non-zero probability; PRNG sampled; hooks H2 used only for the end-to-end leg", ref="3.3 C16"),
    "C17": dict(cat="model_checking", tech="TLC model checking of RarStore.tla / Rar.tla + trace validation (Trace_Rar.tla) with hook H1 candidates and independently recomputed residual ranks",
                text="Store-level model with every reshuffle and every top set; in the traces the points written by each real refinement step must be candidates reported by hook H1 with "
                     "the highest independently recomputed residual (top pairs for product domains), written only into the inactive window, with every active point surviving every draw, reshuffle and step.",
                note="candidates come from the guarded hook H1; crafted residual landscapes; near-ties tolerated; PRNG sampled", ref="3.3 C17"),
}
NA = {}


def main():
    order = [f"C{k:02d}" for k in range(1, 21)]
    checks = []
    for pid in order:
        if pid not in CHECKS:
            continue
        c = CHECKS[pid]
        checks.append(dict(
            property_id=pid,
            quick_cmd=f"bin/check {pid} --tier quick",
            thorough_cmd=f"bin/check {pid} --tier thorough",
            evidence_file=f"/verif/evidence/{pid}.json",
            replay_cmd_template=f"bin/check {pid} --replay {{path}}",
            engine="tlc-trace",
            level_claimed=dict(category=c["cat"], text=c["text"], design_ref=c["ref"]),
            level_note=c["note"],
            technique=c["tech"],
        ))
    na = [dict(property_id=p, reason=NA.get(p, "check not built yet in this revision of /verif (planned, see DESIGN.md section 9)"))
          for p in order if p not in CHECKS]
    man = dict(
        version=1,
        setup_cmd="bin/setup",
        hooks=dict(guard="JINNS_VERIF", enable="environment variable JINNS_VERIF=1 (set by the drivers' worker processes); nothing to rebuild, jinns is imported from /repo's working tree",
                   baseline_off_cmd="bin/baseline", source_commits=["26a6aa3", "0019eef"], add_only=True),
        engines=[dict(name="tlc-trace", path="/verif/bin/check", serves_properties=[c["property_id"] for c in checks],
                      kind_free_text="explicit TLA+ specification (spec/*.tla) model-checked with TLC; conformance by trace validation of the real code against monitor specs and replay of TLC-generated scenarios")],
        checks=checks,
        not_applicable=na,
        notes="Exit codes: 0 held, 1 VIOLATION line(s), 2 machinery failure. Known findings in known_findings.json.",
    )
    with open(os.path.join(V, "MANIFEST.json"), "w") as f:
        json.dump(man, f, indent=1)
    print("MANIFEST.json written:", len(checks), "checks,", len(na), "not claimed")


if __name__ == "__main__":
    main()
