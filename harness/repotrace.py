"""
The repository's own solver tests as trace sources.

record(): runs a selection of /repo/tests/solver_tests* in a pytest sub-process with JINNS_VERIF=1 and
harness/pytest_verif_plugin.py; every jinns.solve call of a test yields one pickled run (generator configuration, hook
events H1/H2, returned generator).  datagen_trace() / rar_trace() project a run to the record formats of the monitors
Trace_DataGen (generator advanced by solve: Batching clauses) and Trace_Rar (schedule, counts, store update; the ranks
of the candidates come from the residuals reported by hook H1 - the networks of the tests are real MLPs, so here the
residual VALUES are the code's own and only the selection / bookkeeping is decided; the value side of C17 is decided
by the crafted landscapes of drv_rar).
"""
from __future__ import annotations

import glob
import os
import pickle
import shutil
import subprocess
import sys
import tempfile

import numpy as np

from .drv_datagen import Registry, _event, _evst, _store, _trace
from .drv_rar import Reg, _ranks

PINNED = ["tests/solver_tests/test_NSPipeFlow_x32_eqx.py", "tests/solver_tests/test_nan_params_catch.py",
          "tests/solver_tests/test_parameter_tracker.py", "tests/solver_tests/test_rar_algorithm.py",
          "tests/solver_tests_spinn/test_NSPipeFlow_x32_spinn_eqx.py"]
MORE = ["tests/solver_tests/test_GLV_x32_eqx.py", "tests/solver_tests/test_Burger_x32_eqx.py", "tests/solver_tests/test_Fisher_x32_eqx.py",
        "tests/solver_tests/test_OU2D_x32_eqx.py", "tests/solver_tests_spinn/test_Burger_x32_eqx.py",
        "tests/solver_tests_spinn/test_Fisher_x32_eqx.py", "tests/solver_tests_spinn/test_OU2D_x32_eqx.py"]


def record(files, timeout=1500):
    """-> (runs, pytest summary line).  Raises RuntimeError when pytest itself breaks (machinery)."""
    repo = os.environ.get("JINNS_REPO", "/repo")
    verif = os.path.dirname(os.path.dirname(os.path.abspath(__file__)))
    out = tempfile.mkdtemp(prefix="jv_repotrace_")
    env = dict(os.environ, JINNS_VERIF="1", VERIF_TRACE_DIR=out, PYTHONPATH=verif + os.pathsep + repo, PYTHONDONTWRITEBYTECODE="1",
               JAX_PLATFORMS="cpu")
    files = [f for f in files if os.path.exists(os.path.join(repo, f))]
    cmd = [os.environ.get("JINNS_PYTHON", "/venv/bin/python"), "-W", "ignore", "-m", "pytest", "-q", "-p", "no:cacheprovider",
           "-p", "harness.pytest_verif_plugin", "--import-mode=importlib", "--all_tests", "--rootdir", repo,
           # stale in the repository itself (assigns to a frozen dataclass field before reaching solve); not part of the pinned suite
           "--deselect", "tests/solver_tests/test_rar_algorithm.py::test_rar_error_with_SPINN"] + files
    try:
        p = subprocess.run(cmd, cwd=repo, env=env, capture_output=True, text=True, timeout=timeout)
        runs = []
        for f in sorted(glob.glob(os.path.join(out, "run_*.pkl"))):
            with open(f, "rb") as fh:
                runs.append(pickle.load(fh))
    finally:
        shutil.rmtree(out, ignore_errors=True)
    tail = [ln for ln in p.stdout.splitlines() if ln.strip()][-1:] or [""]
    return runs, tail[0], p.returncode, p.stdout[-3000:] + p.stderr[-2000:]


def _np(a):
    return np.asarray(a)


_STORES = (("omega", "omega", "curr_omega_idx", "omega_batch_size", "p_omega"),
           ("border", "omega_border", "curr_omega_border_idx", "omega_border_batch_size", None),
           ("times", "times", "curr_time_idx", "temporal_batch_size", "p_times"))


def _rows(name, arr):
    """the permuted axis of a store: border stores are (nb/2d, dim, facets) -> rows along axis 0"""
    return list(arr)


def datagen_trace(run, tag):
    """a solve call without refinement -> a 'solvegen' trace for Trace_DataGen (None when the call is not eligible)"""
    b = run["before"]
    if b is None or b["rar_parameters"] is not None or run["raised"] or run["after"] is None:
        return None
    if b["cls"] not in ("DataGeneratorODE", "CubicMeshPDEStatio", "CubicMeshPDENonStatio"):
        return None
    cfg = dict(kind="solvegen", src=tag, test=run["test"], cls=b["cls"], n_iter=int(run["n_iter"]))
    tr = _trace(cfg, "solvegen", int(b.get("dim") or 1))
    stores = []
    for (name, f_store, f_cur, f_b, f_p) in _STORES:
        if f_store not in b["state"] or f_cur not in b["state"]:
            continue
        if b["cls"] == "DataGeneratorODE" and name != "times":
            continue
        if name == "border" and int(b.get("dim") or 1) == 1:
            continue        # 1-D: the two border points are always served together
        bs = b.get(f_b) if name != "times" or b["cls"] != "DataGeneratorODE" else b.get("temporal_batch_size")
        if bs is None:
            continue        # full-batch store: the cursor does not move
        arr = _np(b["state"][f_store])
        stores.append((name, f_store, f_cur, Registry(_rows(name, arr)), int(bs), arr, int(b["state"][f_cur])))
    if not stores:
        return None
    sentinel = [s[6] + s[4] > 2 ** 30 for s in stores]
    if any(sentinel) != all(sentinel):
        tr["exc"] = "generator with a mix of sentinel and ordinary cursors"
    tr["fresh"] = all(sentinel)         # e.g. the SPINN pipe-flow test wastes one get_batch() before solve
    if any(s[3].dup for s in stores):
        tr["skipped"] = "duplicate floats in store"
        return tr
    for (name, f_store, f_cur, reg, bs, arr, cur0) in stores:
        n = arr.shape[0]
        tr["stores"].append(_store(name, observable=False, req=n, b=bs, neff=n, init=reg.ids(_rows(name, arr)), cur0=cur0, inDom=[True] * n,
                                   shape=list(arr.shape), mask=[True] * n))
    evs = [e for e in run["events"] if e["kind"] in ("solve_init", "solve_draw")]
    iters = [e for e in run["events"] if e["kind"] == "solve_iter"]
    if not evs or evs[0]["kind"] != "solve_init" or len(evs) != len(iters) + 1:
        tr["exc"] = f"hook events: {[e['kind'] for e in evs][:3]} ({len(evs)} draws, {len(iters)} iterations)"
        return tr
    for e in evs:
        tr["ev"].append(_event([_evst(int(e[f_cur]), reg.ids(_rows(name, _np(e[f_store])))) for (name, f_store, f_cur, reg, bs, arr, cur0) in stores]))
    last = tr["ev"][-1]["st"]
    for k, (name, f_store, f_cur, reg, bs, arr, cur0) in enumerate(stores):
        a = run["after"]["state"]
        if reg.ids(_rows(name, _np(a[f_store]))) != last[k]["order"] or int(a[f_cur]) != last[k]["cur"]:
            tr["exc"] = "returned generator is not the generator after the last draw"
    return tr


def rar_trace(run, tag):
    """a solve call with refinement -> a trace for Trace_Rar (None when the call is not eligible)"""
    b = run["before"]
    if b is None or b["rar_parameters"] is None or (run["after"] is None and not run["raised"]):
        return None
    rp = b["rar_parameters"]
    cls = b["cls"]
    kind = {"DataGeneratorODE": "ode", "CubicMeshPDEStatio": "statio", "CubicMeshPDENonStatio": "nonstatio"}.get(cls)
    if kind is None:
        return None
    axes = []
    if kind in ("ode", "nonstatio"):
        axes.append(dict(name="times", cap=int(b["nt"] if kind == "nonstatio" else _np(b["state"]["times"]).shape[0]),
                         nstart=int(b["nt_start"] if kind == "nonstatio" else b["n_start"]), sel=int(rp["selected_sample_size_times"]),
                         sample=int(rp["sample_size_times"]), b=int(b["temporal_batch_size"])))
    if kind in ("statio", "nonstatio"):
        axes.append(dict(name="omega", cap=int(b["n"]), nstart=int(b["n_start"]), sel=int(rp["selected_sample_size_omega"]),
                         sample=int(rp["sample_size_omega"]), b=int(b["omega_batch_size"])))
    cfg = dict(kind=kind, src=tag, test=run["test"], start=int(rp["start_iter"]), every=int(rp["update_every"]), iters=int(run["n_iter"]))
    tr = dict(cfg=cfg, kind=kind, start=cfg["start"], every=cfg["every"], hasDraw=True, fresh=False, retOK=True, skipped="", exc="",
              steps0=int(b["state"]["rar_iter_nb"]), axes=[], ev=[])
    if run["raised"]:
        tr["codeexc"] = run["raised"]
        return tr
    fields = {"times": ("times", "p_times", "curr_time_idx"), "omega": ("omega", "p_omega", "curr_omega_idx")}

    def ax_of(e, name):
        f = fields[name]
        return _np(e[f[0]]), _np(e[f[1]]), int(e[f[2]])

    regs = []
    for ax in axes:
        reg = Reg()
        for r in _np(b["state"][fields[ax["name"]][0]]):
            reg.add(r)
        regs.append(reg)
    evs = run["events"]
    init = [e for e in evs if e["kind"] == "solve_init"]
    if len(init) != 1:
        tr["exc"] = "hook solve_init missing"
        return tr
    for a, ax in enumerate(axes):
        arr, p, cur = ax_of(init[0], ax["name"])
        tr["axes"].append(dict(ax, init=regs[a].ids(arr), cur0=cur, mask0=[bool(v != 0) for v in p]))
    evs = [e for e in evs if e["kind"] != "solve_init"]
    k = 0
    nb_prev = tr["steps0"]
    while k < len(evs):
        if evs[k]["kind"] != "solve_draw":
            tr["exc"] = f"unexpected hook order at {k}: {evs[k]['kind']}"
            return tr
        d = evs[k]
        k += 1
        hook = None
        if k < len(evs) and evs[k]["kind"] == "rar_step":
            hook = evs[k]
            k += 1
        if k >= len(evs) or evs[k]["kind"] != "solve_iter":
            tr["exc"] = f"hook solve_iter missing after draw {int(d['i'])}"
            return tr
        it = evs[k]
        k += 1
        draw = []
        for a, ax in enumerate(axes):
            arr, p, cur = ax_of(d, ax["name"])
            draw.append(dict(cur=cur, order=regs[a].ids(arr)))
        after, pairs = [], []
        for a, ax in enumerate(axes):
            cand_ids, rank, cand_in = [], [], []
            if hook is not None:
                c = _np(hook["cand_" + ax["name"]])
                cand_ids = [regs[a].add(r) for r in c]
                cand_in = [True] * len(c)      # the domain of the tests' generators is decided by C08, not here
                if len(axes) == 1:
                    rank, _ = _ranks(_np(hook["mse"]).reshape(-1), 0.0)
            arr, p, cur = ax_of(it, ax["name"])
            after.append(dict(order=regs[a].ids(arr), mask=[bool(v != 0) for v in p], cand=cand_ids, rank=rank, candIn=cand_in))
        if hook is not None and len(axes) == 2:
            m = _np(hook["mse"])
            flat, tie_free = _ranks(m.reshape(-1), 0.0)      # the code's own values: only exact ties are ties
            if not tie_free:
                tr["skipped"] = "near-tie in the residuals reported by the hook"
                return tr
            pairs = [flat[r * m.shape[1]:(r + 1) * m.shape[1]] for r in range(m.shape[0])]
        nb = int(it["rar_iter_nb"])
        tr["ev"].append(dict(i=int(it["i"]), draw=draw, stepped=bool(nb != nb_prev), hooked=hook is not None, steps=nb,
                             since=int(it["rar_iter_from_last_sampling"]), after=after, pairs=pairs))
        nb_prev = nb
    a_st = run["after"]["state"]
    for a, ax in enumerate(axes):
        f = fields[ax["name"]]
        if tr["ev"] and (regs[a].ids(_np(a_st[f[0]])) != tr["ev"][-1]["after"][a]["order"]
                         or [bool(v != 0) for v in _np(a_st[f[1]])] != tr["ev"][-1]["after"][a]["mask"]):
            tr["retOK"] = False
    if len(tr["ev"]) != cfg["iters"]:
        tr["exc"] = f"{len(tr['ev'])} iterations recorded, {cfg['iters']} requested"
    if any(r.dup for r in regs):
        tr["skipped"] = "duplicate floats"
    return tr


def files_for(tier, rar):
    if rar:
        return ["tests/solver_tests/test_rar_algorithm.py"]
    sel = [f for f in PINNED if "rar_algorithm" not in f]
    return sel if tier == "quick" else sel + MORE


def start(tier, rar):
    """records in a background thread (pytest is mostly one process; the driver pool keeps the other cores busy)"""
    from concurrent.futures import ThreadPoolExecutor

    ex = ThreadPoolExecutor(1)
    fut = ex.submit(record, files_for(tier, rar))
    ex.shutdown(wait=False)
    return fut


def datagen_leg(fut, pid="C09"):
    """-> (violations, stats): the generators of the repository's own solver tests, as advanced by solve, against Batching"""
    from . import core, tracecheck
    from .checks import _dg

    runs, line, prc, out = fut.result()
    trs = [t for t in (datagen_trace(r, "repo_tests") for r in runs) if t is not None]
    broken = [t for t in trs if t.get("exc", "").startswith("hook events")]
    if broken:
        raise core.MachineryError("repo-test trace could not be recorded: " + broken[0]["exc"])
    live = [t for t in trs if not t.get("skipped")]
    if not live and not any(r["raised"] for r in runs):
        raise core.MachineryError("no solve call of the repository's tests could be traced: " + line + "\n" + out[-1500:])
    sc = core.Scratch("repotests")
    try:
        slim = [{k: v for k, v in t.items() if k != "cfg"} for t in live]
        rej, acc, res = tracecheck.validate("Trace_DataGen", _dg.TRACE_CFG % pid, slim, sc, "trRepo", chunk=4)
        viol = []
        for run in runs:          # none of the selected tests expects solve to raise
            if run["raised"]:
                viol.append(dict(clause="RepoTest_SolveRaised", sig=dict(leg="repo_tests", test=run["test"].split(" ")[0]), detail=run["raised"],
                                 driver="harness.drv_datagen:run_case", cfg=dict(src="repo_tests", test=run["test"]), record=dict(raised=run["raised"])))
        for r in rej:
            t = live[r["tid"]]
            viol.append(dict(clause="RepoTest_" + r["clause"], sig=dict(leg="repo_tests", test=t["cfg"]["test"].split(" ")[0]),
                             detail=f"event {r['ev']} {t.get('exc', '')}", driver="harness.drv_datagen:run_case", cfg=t["cfg"],
                             record={k: v for k, v in t.items() if k != "ev"}))
        # binding self-tests: one corrupted logged field of an accepted repo-test trace must be rejected
        import copy
        bad = {r["tid"] for r in rej}
        good = [t for k, t in enumerate(slim) if k not in bad and len(t["ev"]) >= 3]
        st = []
        if good:
            c = copy.deepcopy(good[0]); c["ev"][1]["st"][0]["cur"] += 1
            st.append((c, None, "cursor of a repo-test draw shifted by one"))
            c = copy.deepcopy(good[-1]); o = c["ev"][2]["st"][0]["order"]; o[0], o[1] = o[1], o[0]
            st.append((c, None, "two stored points swapped without a reshuffle in a repo-test trace"))
        nself = tracecheck.selftest("Trace_DataGen", _dg.TRACE_CFG % pid, st, sc, "stRepo")
        return viol, dict(repo_test_solve_calls=len(runs), repo_test_traces=len(live), repo_test_traces_accepted=acc, repo_test_selftests_rejected=nself,
                          repo_test_events=sum(len(t["ev"]) for t in live), repo_tests_pytest=line)
    finally:
        sc.cleanup()


def rar_traces(fut):
    from . import core

    runs, line, prc, out = fut.result()
    trs = [t for t in (rar_trace(r, "repo_tests") for r in runs) if t is not None]
    if not trs:
        raise core.MachineryError("no refinement run of the repository's tests could be traced: " + line + "\n" + out[-1500:])
    return trs, line


if __name__ == "__main__":
    runs, line, rc, out = record(PINNED if len(sys.argv) < 2 else sys.argv[1:])
    print(line, rc)
    for r in runs:
        print(r["test"], r["n_iter"], r["before"] and r["before"]["cls"], r["raised"], len(r["events"]))
        for f in (datagen_trace, rar_trace):
            t = f(r, "x")
            if t is not None:
                print("   ", f.__name__, "events", len(t["ev"]), "exc", t.get("exc"), "skipped", t.get("skipped"),
                      [(s_["name"], s_["req"], s_["b"]) for s_ in t.get("stores", [])], [(a["name"], a["cap"], a["nstart"], a["sel"], a["b"]) for a in t.get("axes", [])])
