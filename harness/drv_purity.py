"""Driver for C20: executes one call sequence (emitted by TLC from spec/Purity.tla) on real jinns
objects and records, for every call, interned fingerprints of the arguments before / after and of
the result."""
from __future__ import annotations

import hashlib

import numpy as np


def fingerprint(obj):
    import jax

    leaves, treedef = jax.tree_util.tree_flatten(obj)
    h = hashlib.sha1(repr(treedef).encode())
    for x in leaves:
        if isinstance(x, (bool, int, float)) or (hasattr(x, "shape") and hasattr(x, "dtype") and x.shape == ()):
            # python scalars become 0-d arrays under jit: scalars are compared by kind and value, not by container
            a = np.asarray(x)
            kind = "b" if a.dtype == bool else ("i" if np.issubdtype(a.dtype, np.integer) else "f")
            h.update((kind + repr(a.item())).encode())
        elif hasattr(x, "shape") and hasattr(x, "dtype"):
            a = np.asarray(x)
            h.update(str(a.dtype).encode() + str(a.shape).encode() + a.tobytes())
        else:
            h.update(repr(x).encode())
    return h.hexdigest()


def deep_user_dicts(params, batch):
    """fingerprint of the user-owned nested dictionaries (content AND key set)"""
    out = []
    for d in (getattr(params, "eq_params", None), getattr(batch, "param_batch_dict", None), getattr(batch, "obs_batch_dict", None)):
        if isinstance(d, dict):
            out.append(repr(sorted(d.keys())) + "|" + fingerprint(d))
        else:
            out.append(repr(d))
    return "#".join(out)


def make_eval_objects(name, variant, seed):
    from . import lossrec
    from .drv_func import build_loss, build_sysloss

    if name in ("ode", "nonstatio", "statio"):
        st = dict(family="C12", lkind=name, batched=[1] if variant in ("param", "both") else [], pshape="scalar", ot=(variant != "both"),
                  hetero=("k1k3" if variant == "plain" else "none"), obsk=(variant in ("obs", "both")), b=2)      # plain: two heterogeneity maps (a static dictionary of functions held by the dynamic loss)
        rec = lossrec.expand(st, seed)
        loss, params, batch = build_loss(rec)
        return loss, params, batch, True
    if name in ("sysode", "syspde", "syspdestatio"):
        lk = {"sysode": "ode", "syspde": "nonstatio", "syspdestatio": "statio"}[name]
        # per-equation / per-unknown weight dictionaries (plain and obs variants), written by the user in ANOTHER key order than the
        # dictionaries of equations and networks: a pytree round trip (loss passed as an argument) re-sorts dictionary keys
        st = dict(family="C13", lkind=lk, neq=2, nunk=2, naming="same", wform="dict" if variant in ("plain", "obs") else "scalar",
                  icpat="all" if lk != "statio" else "none",
                  obspat="all" if variant == "obs" else "none", bnd=False, pbatch=(variant in ("param", "both")))
        rec = lossrec.expand(st, seed)
        rec["wrev"] = st["wform"] == "dict"
        loss, params, batch = build_sysloss(rec)
        return loss, params, batch, True
    if name in ("bnd1d", "bnd2d"):
        # stationary losses whose boundary conditions are given per facet (dictionaries), in 1-D and in 2-D: evaluated in the same process
        d = 1 if name == "bnd1d" else 2
        st = dict(family="C04", lkind="statio", dim=d, form="dict", conds=(["dirichlet", "neumann", "none", "dirichlet"][: 2 * d]), gzero=False,
                  gret="array", nout=1, comp=1, nb=1 if d == 1 else 2, nt=1)
        rec = lossrec.expand(st, seed + {"plain": 0, "param": 1, "obs": 2, "both": 3}[variant])
        loss, params, batch = build_loss(rec)
        return loss, params, batch, True
    if name == "mlp":
        import warnings

        import equinox as eqx
        import jax
        import jax.numpy as jnp
        import jinns
        from jinns.data._Batchs import ODEBatch
        from jinns.data._DataGenerators import append_obs_batch, append_param_batch
        from jinns.loss import ODE

        warnings.simplefilter("ignore")
        u = jinns.utils.create_PINN(jax.random.PRNGKey(seed), ((eqx.nn.Linear, 1, 8), (jax.nn.tanh,), (eqx.nn.Linear, 8, 1)), "ODE")

        class Eq(ODE):
            def equation(self, t, u, p):
                return jax.grad(lambda s: u(s, p)[0])(t) + p.eq_params["a"] * u(t, p)

        params = jinns.parameters.Params(nn_params=u.init_params(), eq_params={"a": jnp.array(0.7)})
        loss = jinns.loss.LossODE(u=u, dynamic_loss=Eq(Tmax=1), initial_condition=(0.0, 1.0), params=params)
        batch = ODEBatch(temporal_batch=jnp.array([0.1, 0.5, 0.9, 0.3]))
        if variant in ("param", "both"):
            batch = append_param_batch(batch, {"a": jnp.array([[0.1], [0.2], [0.3], [0.4]])})
        if variant in ("obs", "both"):
            batch = append_obs_batch(batch, {"pinn_in": jnp.array([[0.2], [0.4], [0.6], [0.8]]), "val": jnp.array([[1.0], [0.5], [0.25], [0.1]]),
                                             "eq_params": {}})   # as many rows as the parameter batch
        return loss, params, batch, False
    raise ValueError(name)


def make_generator(name, seed):
    import jax
    import jax.numpy as jnp
    import jinns

    k = jax.random.PRNGKey(seed)
    if name == "odegen":
        return jinns.data.DataGeneratorODE(k, 5, 0.0, 1.0, 2)
    if name == "statio2d":
        return jinns.data.CubicMeshPDEStatio(key=k, n=6, nb=16, omega_batch_size=2, omega_border_batch_size=4, dim=2, min_pts=(0.0, 0.0), max_pts=(1.0, 1.0))
    if name == "statio1d":
        return jinns.data.CubicMeshPDEStatio(key=k, n=5, nb=2, omega_batch_size=5, omega_border_batch_size=2, dim=1, min_pts=(0.0,), max_pts=(1.0,))
    if name == "nonstatio":
        return jinns.data.CubicMeshPDENonStatio(key=k, n=6, nb=8, nt=4, omega_batch_size=3, omega_border_batch_size=2, temporal_batch_size=2, dim=2,
                                                min_pts=(0.0, 0.0), max_pts=(1.0, 1.0), tmin=0.0, tmax=1.0)
    if name == "obsgen":
        return jinns.data.DataGeneratorObservations(k, 2, jnp.arange(5.0)[:, None], 10 + jnp.arange(5.0)[:, None], {"a": 20 + jnp.arange(5.0)[:, None]})
    if name == "paramgen":
        return jinns.data.DataGeneratorParameter(k, 6, 3, param_ranges={"a": (0.0, 1.0)}, user_data={"b": _PTAB})
    if name == "paramgen2":
        # several sampled parameters, one PRNG key per parameter given as a dictionary written in another order than the ranges
        ks = jax.random.split(k, 3)
        return jinns.data.DataGeneratorParameter({"z": ks[0], "m": ks[1], "a": ks[2]}, 6, 3, param_ranges={"a": (2.0, 3.0), "z": (0.0, 1.0), "m": (5.0, 6.0)})
    if name == "multiobs":
        return jinns.data.DataGeneratorObservationsMultiPINNs(2, {"u": jnp.arange(4.0)[:, None], "v": None}, {"u": jnp.arange(4.0)[:, None] + 7, "v": None}, key=k)
    raise ValueError(name)


_PTAB = None


def run_case(sc):
    import jax
    import jax.numpy as jnp

    global _PTAB
    if _PTAB is None:
        _PTAB = jnp.arange(6.0) + 100
    seed = sc.get("seed", 0)
    intern = {}

    def I(h):
        return intern.setdefault(h, len(intern) + 1)

    evals, gens = {}, {}
    ev = []
    for c in sc["calls"]:
        e = dict(kind=c["kind"], exc="", exact=True, l="", b="", m=c.get("m", "eager"), g="", before=[], after=[], res=0)
        try:
            if c["kind"] == "eval":
                key = (c["l"], c["b"])
                if key not in evals:
                    evals[key] = make_eval_objects(c["l"], c["b"], seed)
                loss, params, batch, exact = evals[key]
                e.update(l=c["l"], b=c["b"], exact=bool(exact))
                before = [I(fingerprint(loss)), I(fingerprint(params)), I(fingerprint(batch)), I(deep_user_dicts(params, batch))]
                if c["m"] == "eager":
                    tot, terms = loss.evaluate(params, batch)
                elif c["m"] == "jit":
                    tot, terms = jax.jit(lambda p, b: loss.evaluate(p, b))(params, batch)
                elif c["m"] == "jitarg":       # the loss itself is an argument of the compiled function (what jinns.solve does)
                    tot, terms = jax.jit(lambda l, p, b: l.evaluate(p, b))(loss, params, batch)
                else:
                    (tot, terms), _g = jax.value_and_grad(lambda p: loss.evaluate(p, batch), has_aux=True)(params)
                after = [I(fingerprint(loss)), I(fingerprint(params)), I(fingerprint(batch)), I(deep_user_dicts(params, batch))]
                res = fingerprint((np.asarray(tot), {k: np.asarray(v) for k, v in terms.items()}))
                e.update(before=before, after=after, res=I(res))
            else:
                g = c["g"]
                if g not in gens:
                    gens[g] = [make_generator(g, seed)]
                st = gens[g][c["k"]]
                e.update(g=g)
                before = [I(fingerprint(st))]
                if c["m"] == "jit":
                    new, b = jax.jit(lambda s: s.get_batch())(st)
                else:
                    new, b = st.get_batch()
                after = [I(fingerprint(st))]
                if c["k"] == len(gens[g]) - 1:
                    gens[g].append(new)
                e.update(before=before, after=after, res=I(fingerprint((new, b))))
        except Exception as ex:  # noqa
            e["exc"] = f"{type(ex).__name__}: {str(ex)[:200]}"
        ev.append(e)
    return dict(sc=sc, ev=ev)
