"""
pytest plugin (loaded with ``-p harness.pytest_verif_plugin``; PYTHONPATH=/verif:<repo>; JINNS_VERIF=1):
turns the repository's OWN solver tests into trace sources.

Every ``jinns.solve`` call made by a test is wrapped (the library itself is not modified: the module attribute is
rebound in the test process): the static configuration of the generator passed in, its array state before the call,
the hook events H1 / H2 emitted during the call and the array state of the returned generator are pickled to
``$VERIF_TRACE_DIR/run_<k>.pkl``.  harness/repotrace.py projects these files to the trace records of
Trace_DataGen / Trace_Rar.
"""
import os
import pickle

import numpy as np

_STATIC = ("n", "nt", "nb", "dim", "omega_batch_size", "omega_border_batch_size", "temporal_batch_size", "cartesian_product",
           "n_start", "nt_start", "method", "tmin", "tmax", "min_pts", "max_pts")


def _describe(data):
    from jinns import _verif

    if data is None:
        return None
    d = dict(cls=type(data).__name__)
    for k in _STATIC:
        v = getattr(data, k, None)
        if v is not None and not isinstance(v, (int, float, str, bool, tuple)):
            try:
                v = np.asarray(v).tolist()
            except Exception:  # noqa
                v = repr(v)
        d[k] = v
    rp = getattr(data, "rar_parameters", None)
    d["rar_parameters"] = dict(rp) if rp is not None else None
    d["state"] = {k: np.array(v, copy=True) for k, v in _verif.datagen_state(data).items()}
    return d


def pytest_configure(config):
    import jax
    import jinns
    from jinns import _verif

    out = os.environ["VERIF_TRACE_DIR"]
    os.makedirs(out, exist_ok=True)
    orig = jinns.solve
    counter = {"k": 0}

    def solve(*args, **kwargs):
        data = kwargs.get("data", args[2] if len(args) > 2 else None)
        rec = dict(test=os.environ.get("PYTEST_CURRENT_TEST", ""), n_iter=kwargs.get("n_iter", args[0] if args else None),
                   has_param_data=kwargs.get("param_data") is not None, has_obs_data=kwargs.get("obs_data") is not None,
                   has_validation=kwargs.get("validation") is not None, loss=type(kwargs.get("loss")).__name__,
                   before=_describe(data), raised="", after=None, events=[])
        jax.effects_barrier()
        _verif.drain()
        try:
            res = orig(*args, **kwargs)
            jax.effects_barrier()
            rec["after"] = _describe(res[3])
            rec["n_stored"] = int(np.asarray(res[1]).shape[0])
            return res
        except BaseException as ex:  # noqa
            rec["raised"] = f"{type(ex).__name__}: {str(ex)[:200]}"
            raise
        finally:
            rec["events"] = _verif.drain()
            counter["k"] += 1
            with open(os.path.join(out, f"run_{counter['k']:03d}.pkl"), "wb") as f:
                pickle.dump(rec, f)

    jinns.solve = solve
