"""Driver for spec/Contracts.tla: tries one configuration on the real constructors / solve and reports
whether it was accepted and how it was normalised."""
from __future__ import annotations

import numpy as np


def run_case(rec):
    import warnings

    import jax
    import jax.numpy as jnp
    import jinns

    warnings.simplefilter("ignore")
    c = rec["c"]
    out = dict(rec)
    obs = dict(accept=True, nb=0, bb=0, exc="")
    try:
        if c["kind"] == "pde":
            dim = c["dim"]
            rar = dict(start_iter=0, update_every=1, sample_size_times=2, selected_sample_size_times=1, sample_size_omega=2,
                       selected_sample_size_omega=1) if c["rar"] else None
            kw = dict(key=jax.random.PRNGKey(0), n=c["n"], nb=c["nb"] if c["hasBorder"] else None, omega_batch_size=c["b"],
                      omega_border_batch_size=c["bb"] if c["hasBorder"] else None, dim=dim, min_pts=(0.0,) * dim, max_pts=(1.0,) * dim,
                      method=c["method"], rar_parameters=rar, n_start=2 if (c["rar"] and c["nstartGiven"]) else None)
            if c["nonstatio"]:
                g = jinns.data.CubicMeshPDENonStatio(nt=c["nt"], temporal_batch_size=c["bt"], tmin=0.0, tmax=1.0, cartesian_product=c["cart"],
                                                     nt_start=2 if (c["rar"] and c["nstartGiven"]) else None, **kw)
            else:
                g = jinns.data.CubicMeshPDEStatio(**kw)
            obs["nb"] = int(g.nb) if g.nb is not None else 0
            obs["bb"] = int(g.omega_border_batch_size) if g.omega_border_batch_size is not None else 0
            g.get_batch()
        elif c["kind"] == "param":
            n = c["n"]
            tab = {"n": np.arange(n, dtype=np.float32), "n1": np.arange(n, dtype=np.float32)[:, None], "n2": np.zeros((n, 2), dtype=np.float32),
                   "wrong": np.arange(n + 1, dtype=np.float32)}[c["tshape"]]
            g = jinns.data.DataGeneratorParameter(jax.random.PRNGKey(0), n, c["b"], param_ranges={"r": (0.0, 1.0)} if c["withRange"] else {},
                                                  user_data={"u": jnp.asarray(tab)})
            g.get_batch()
        elif c["kind"] == "obs":
            shape_in = {1: (c["nin"],), 2: (c["nin"], 2), 3: (c["nin"], 2, 1)}[c["inDims"]]
            eq = {"a": jnp.zeros((c["neq"], 1))} if c["neq"] else {}
            g = jinns.data.DataGeneratorObservations(jax.random.PRNGKey(0), 2, jnp.zeros(shape_in), jnp.zeros((c["nval"], 1)), eq)
            g.get_batch()
        else:
            obs.update(_solve_contract(c))
    except Exception as ex:  # noqa
        obs["accept"] = False
        obs["exc"] = f"{type(ex).__name__}: {str(ex)[:120]}"
    out["obs"] = obs
    return out


def _solve_contract(c):
    import equinox as eqx
    import jax
    import jax.numpy as jnp
    import optax
    import jinns
    from jinns.loss import ODE, PDEStatio, PDENonStatio

    key = jax.random.PRNGKey(0)
    if c["main"] == "ode":
        data = jinns.data.DataGeneratorODE(key, 12, 0.0, 1.0, c["bt"])
        u = jinns.utils.create_PINN(key, ((eqx.nn.Linear, 1, 1),), "ODE")

        class Eq(ODE):
            def equation(self, t, u, p):
                return u(t, p) * p.eq_params["a"]
        nin = 1
    elif c["main"] == "statio":
        data = jinns.data.CubicMeshPDEStatio(key=key, n=12, nb=None, omega_batch_size=c["bx"], omega_border_batch_size=None, dim=1, min_pts=(0.0,), max_pts=(1.0,))
        u = jinns.utils.create_PINN(key, ((eqx.nn.Linear, 1, 1),), "statio_PDE", 1)

        class Eq(PDEStatio):
            def equation(self, x, u, p):
                return u(x, p) * p.eq_params["a"]
        nin = 1
    else:
        data = jinns.data.CubicMeshPDENonStatio(key=key, n=12, nb=None, nt=12, omega_batch_size=c["bx"], omega_border_batch_size=None,
                                                temporal_batch_size=c["bt"], dim=1, min_pts=(0.0,), max_pts=(1.0,), tmin=0.0, tmax=1.0, cartesian_product=c["cart"])
        u = jinns.utils.create_PINN(key, ((eqx.nn.Linear, 2, 1),), "nonstatio_PDE", 1)

        class Eq(PDENonStatio):
            def equation(self, t, x, u, p):
                return u(t, x, p) * p.eq_params["a"]
        nin = 2
    params = jinns.parameters.Params(nn_params=u.init_params(), eq_params={"a": jnp.array(1.0)})
    LossCls = {"ode": jinns.loss.LossODE, "statio": jinns.loss.LossPDEStatio, "nonstatio": jinns.loss.LossPDENonStatio}[c["main"]]
    loss = LossCls(u=u, dynamic_loss=Eq(Tmax=1), params=params)
    pd = od = None
    if c["aux"] == "param":
        pd = jinns.data.DataGeneratorParameter(key, 24, c["bo"], param_ranges={"a": (0.0, 1.0)})
    else:
        od = jinns.data.DataGeneratorObservations(key, c["bo"], jnp.zeros((24, nin)), jnp.zeros((24, 1)))
    jinns.solve(n_iter=1, init_params=params, data=data, loss=loss, optimizer=optax.sgd(0.0), param_data=pd, obs_data=od, verbose=False)
    return {}
