"""C15 - observation and parameter loaders keep rows aligned with the user's tables."""
from __future__ import annotations

from . import _contracts, _dg
from .c09 import MC_CFG, draws

MC_PROPS = """INVARIANT StoreIsPermutation
INVARIANT BatchFromStore
INVARIANT BatchInsideWindow
PROPERTY MonitorAgrees
"""


def cases(tier, seed):
    out = []
    N = 5 if tier == "quick" else 8
    sd = 15485863 * seed
    keysets = [["range"], ["table1"], ["table2"], ["both1"], ["both2"], ["range", "table1", "both2"], ["range", "range"],
               ["table2", "table1"]]
    for n in range(1, N + 1):
        for b in range(1, n + 1):
            k = sd + 10 * n + b
            d = draws(n, b)
            for (din, dout, eqk) in ((1, 1, 0), (2, 1, 1), (1, 3, 2), (3, 2, 1)):
                out.append(dict(kind="obs", n=n, b=b, din=din, dout=dout, eqk=eqk, seed=k, draws=d))
            out.append(dict(kind="obs", n=n, b=b, din=1, dout=1, eqk=1, flat_in=True, flat_val=True, flat_eq=True, seed=k, draws=d))
            out.append(dict(kind="obs", n=n, b=b, din=2, dout=1, eqk=2 + n % 2, flat_eq=True, seed=k, draws=d))      # several observed parameters given as 1-D arrays
            out.append(dict(kind="obs", n=n, b=b, din=2, dout=1, eqk=1, shard=True, seed=k, draws=d))     # stored with a sharding constraint
            for ks in keysets if (tier != "quick" or n <= 4) else keysets[:3]:
                out.append(dict(kind="param", n=n, b=b, keys=ks, seed=k, draws=d))
            out.append(dict(kind="param", n=n, b=b, keys=["range", "both1"], method="grid", seed=k, draws=d))
            n2 = N + 1 - n
            for nets in ([n], [n, 0], [0, n], [n, n2] if b <= n2 else [n, n], [n, 0, n2] if b <= n2 else [0, n, 0]):
                out.append(dict(kind="multiobs", nets=nets, b=b, eqk=1 if n % 2 else 0, din=2, seed=k, draws=d))
            # same-sized tables, user dictionaries given in different insertion orders
            for rot in (1, 2, 3):
                out.append(dict(kind="multiobs", nets=[n, n] if rot == 1 else [n, n, n], b=b, eqk=1, din=1, rot=rot, seed=k, draws=min(d, 4)))
            # every dictionary in its own order, the inputs dictionary not sorted by key, different table sizes, a network without observations
            for rot, nets in ((4, [n, n2] if b <= n2 else [n, n]), (5, [n, 0, n2] if b <= n2 else [0, n, 0]), (7, [n, n, n])):
                out.append(dict(kind="multiobs", nets=nets, b=b, eqk=1, din=1, rot=rot, seed=k, draws=min(d, 4)))
    return out


def run(tier, seed):
    mc = [dict(module="Batching", tag="MC_Batching_index", cfg=MC_CFG % (5 if tier == "quick" else 6, "ge", 9, MC_PROPS))]
    return _dg.run(
        "C15", tier, seed, mc=mc, cfgs=cases(tier, seed), extra_leg=_contracts.leg(("param", "obs"), 0),
        rule="MC: the shuffled index vector obeys Batching; traces: tagged tables (input row i, value 100+i, parameter 200+i) of "
             "1..N rows x every batch size x column counts x 1-D/2-D inputs x flat/column shapes; parameter loaders with every "
             "range/table combination per key (both documented table shapes, table over range); multi-network loaders with and "
             "without missing networks; 3 epochs; distinct = distinct cfg",
        assumptions=["table entries are distinct tagged floats, identified by exact bytes",
                     "an empty entry for a network without observations may be None or {}"],
    )
