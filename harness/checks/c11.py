"""C11 - forward-mode (separable) and reverse-mode (pointwise) computations agree."""
from __future__ import annotations

from .. import lossrec
from . import _func

MC = """SPECIFICATION Spec
INVARIANT Emit
"""


def sig(r):
    s = {k: (v if isinstance(v, (int, str, bool)) else str(v)) for k, v in r["struct"].items()}
    s["exc"] = (r.get("exc") or "").split(":")[0]
    return s


def run(tier, seed):
    return _func.run(
        "C11", tier, seed, emitters=[("MC_FwdRev", MC, "MC_FwdRev")], extras=lambda s: [],
        prepare=lambda structs, sd: [lossrec.expand_fr(s, sd) for s in structs], sig=sig,
        rule="TLC enumerates {laplacian, divergence, vector laplacian, advection, mass conservation, Burgers, Fisher-KPP} x dimensions 1..3 "
             "(time first) x embedding size 1..2 x outputs x batch per axis 1..3 (including batches smaller than the dimension) x feature "
             "degree; a polynomial SPINN (real create_SPINN with polynomial feature layers) and its expanded polynomial PINN twin are "
             "evaluated by the forward-mode grid implementation and by the reverse-mode pointwise implementation; BOTH must equal, at "
             "grid index (i1..id) resp. point (x_i1..x_id), the value the specification computes from the expansion (SpinnPoly.tla + "
             "Operators / Equations); distinct = distinct structure",
        assumptions=["polynomial feature maps (exact under x64)", "loss-term branches (boundary / initial condition / normalisation with a "
                     "SPINN) are covered by their own records when present in this revision"])
