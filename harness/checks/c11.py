"""C11 - forward-mode (separable) and reverse-mode (pointwise) computations agree."""
from __future__ import annotations

from .. import lossrec
from . import _func, _loss

MC = """CONSTANT Sel = "all"
SPECIFICATION Spec
INVARIANT Emit
"""


def prepare(structs, sd):
    return [lossrec.expand(s, sd) if s["kind"] == "loss_struct" else lossrec.expand_fr(s, sd) for s in structs]


def sig(r):
    s = {k: (v if isinstance(v, (int, str, bool)) else str(v)) for k, v in r["struct"].items()}
    s["exc"] = (r.get("exc") or "").split(":")[0]
    return s


def run(tier, seed):
    return _func.run(
        "C11", tier, seed, emitters=[("MC_FwdRev", MC, "MC_FwdRev"), ("MC_Loss", _loss.MC % ("C11L", 8), "MC_Loss_C11L")], extras=lambda s: [],
        prepare=prepare, sig=sig,
        rule="TLC enumerates {laplacian, divergence, vector laplacian, advection, mass conservation, Burgers, Fisher-KPP} x dimensions 1..3 "
             "(time first) x embedding size 1..2 x outputs x batch per axis 1..3 (including batches smaller than the dimension) x feature "
             "degree; a polynomial SPINN (real create_SPINN with polynomial feature layers) and its expanded polynomial PINN twin are "
             "evaluated by the forward-mode grid implementation and by the reverse-mode pointwise implementation; BOTH must equal, at "
             "grid index (i1..id) resp. point (x_i1..x_id), the value the specification computes from the expansion (SpinnPoly.tla + "
             "Operators / Equations); + the initial-condition, normalisation, Dirichlet and Neumann terms of LossPDEStatio / LossPDENonStatio on a "
             "polynomial SPINN: jinns receives the batch columns, LossSemantics.tla evaluates the same term pointwise on the tensor grid they "
             "span (time first); distinct = distinct structure",
        assumptions=["polynomial feature maps (exact under x64)", "loss-term branches (boundary / initial condition / normalisation with a "
                     "SPINN) are covered by their own records when present in this revision"])
