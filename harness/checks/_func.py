"""Shared flow of the functional checks: TLC enumerates the configuration space defined in the
specification (one state per configuration, emitted as JSON, oracle lemmas as invariants) ->
the driver evaluates the real code on every configuration (+ seeded random extras) -> the
monitor Trace_Func recomputes the expected exact value from the configuration and compares."""
from __future__ import annotations

import json
import time

from .. import core, tracecheck

TRACE_CFG = """SPECIFICATION Spec
INVARIANT Report
INVARIANT Done
INVARIANT LemmaReport
POSTCONDITION Summary
CHECK_DEADLOCK FALSE
"""


def emit(sc, module, cfg_text, tag, workers=1, timeout=1800):
    r = core.run_tlc(module, cfg_text, sc, workers=workers, tag=tag, timeout=timeout)
    core.tlc_must_pass(r, tag)
    recs = [p for p in r.prints if isinstance(p, dict) and "kind" in p]
    if not recs:
        raise core.MachineryError(f"{module} emitted no configuration")
    if len(recs) != r.distinct and workers == 1:
        raise core.MachineryError(f"{module}: {len(recs)} configurations parsed but {r.distinct} states enumerated")
    return recs, r


def run(pid, tier, seed, *, emitters, extras, sig, rule, assumptions, trace_module="Trace_Func", chunk=2500, x64=True,
        level="model_checking", nontrivial=None, prepare=None, exhaustive=True, thorough_reps=4):
    """emitters: list of (module, cfg_text, tag); extras(rng seed) -> extra records; sig(rec) -> flat dict"""
    t0 = time.time()
    sc = core.Scratch(pid)
    try:
        core.repo_is_importable()
        recs, states, trans, mc_info = [], 0, 0, []
        for module, cfg_text, tag in emitters:
            rs, r = emit(sc, module, cfg_text, tag)
            recs += rs
            states += r.distinct
            trans += r.generated
            mc_info.append(dict(run=tag, module=module, configurations=len(rs), distinct=r.distinct, wall_s=round(r.wall, 1)))
        n_enum = len(recs)
        reps = 1
        if prepare is not None:
            # instantiate / select the structural configurations; the thorough tier instantiates every structure with
            # several independent seeds (coefficients, points, tables)
            reps = 1 if tier == "quick" else thorough_reps
            structs = recs
            recs = []
            for j in range(reps):
                more = prepare(structs, seed + 7919 * j)
                for r in more:           # twin groups (lemmas of the oracle) are per seeded instance
                    if j and isinstance(r, dict) and "group" in r:
                        r["group"] = f"{r['group']}#rep{j}"
                recs += more
        n_tlc = len(recs)
        recs += extras(seed)
        out = core.run_drivers("harness.drv_func:run_case", recs, x64=x64)
        crashed = [t for t in out if "tb" in t]
        if crashed:
            raise core.MachineryError("driver crashed: " + crashed[0]["tb"] + json.dumps(crashed[0]["cfg"])[:300])
        if len(out) != len(recs):
            raise core.MachineryError("coverage closure: not every configuration was evaluated")
        flat = []
        for o in out:                      # a driver may expand one task into many records
            flat += o["_many"] if isinstance(o, dict) and "_many" in o else [o]
        out = flat
        if any("_many" in r or r.get("kind") in ("gradbatch", "sysgradbatch") for r in recs):
            n_tlc = sum(1 for o in out if o.get("src", "tlc") == "tlc")
        if any(isinstance(o, dict) and o.get("group") is not None for o in out):
            out.sort(key=lambda o: str(o.get("group") or ""))          # stable: twin groups become contiguous (never split over chunks)
        rej, acc, res = tracecheck.validate(trace_module, TRACE_CFG, out, sc, "tr" + pid, chunk=chunk)
        if any(isinstance(p, dict) and p.get("tag") == "LEMMA" for r in res for p in r.prints):
            raise core.MachineryError("a lemma of the oracle (twin records) does not hold: the specification is inconsistent")
        import copy
        badt = {x["tid"] for x in rej}
        st_recs, seen_kinds = [], set()
        for k, r in enumerate(out):
            if k in badt or r.get("exc") or r.get("kind") in seen_kinds:
                continue
            c = copy.deepcopy(r)
            try:
                if r["kind"] in ("operator", "equation", "net"):
                    c["obs"][0][0]["n"] += c["obs"][0][0]["d"]
                elif r["kind"] in ("loss", "sysloss"):
                    c["obs"]["total"]["n"] += c["obs"]["total"]["d"]
                elif r["kind"] == "fwdrev":
                    c["fwd"][0][0]["n"] += c["fwd"][0][0]["d"]
                elif r["kind"] == "grad":
                    c["obs"]["grad"][0][0]["n"] += c["obs"]["grad"][0][0]["d"]
                else:
                    continue
            except (IndexError, KeyError, TypeError):
                continue
            seen_kinds.add(r["kind"])
            st_recs.append((c, None, f"observed value of a {r['kind']} record shifted by one"))
        nself = tracecheck.selftest(trace_module, TRACE_CFG, st_recs, sc, "st" + pid)
        viol = []
        for x in rej:
            r = out[x["tid"]]
            viol.append(dict(clause=x["clause"], sig=sig(r), detail=r.get("exc", ""), driver="harness.drv_func:run_case",
                             cfg={k: v for k, v in r.items() if k not in ("obs",)}, record=r))
        import os
        if os.environ.get("VERIF_DEBUG"):
            import collections
            cnt = collections.Counter((v["clause"],) + tuple(sorted((k, str(x)) for k, x in v["sig"].items() if k in os.environ["VERIF_DEBUG"].split(","))) for v in viol)
            for k, n in sorted(cnt.items(), key=str):
                print("DEBUG", n, k)
        rc, n_new, n_known = core.report(pid, viol)
        tstates = sum(r.distinct for r in res)
        nt = nontrivial or (lambda r: True)
        distinct = {json.dumps({k: v for k, v in r.items() if k not in ("obs", "exc")}, sort_keys=True) for r in out if nt(r)}
        clauses = {}
        for v in viol:
            clauses[v["clause"]] = clauses.get(v["clause"], 0) + 1
        cov = dict(
            states=states + tstates, transitions=trans + sum(r.generated for r in res), traces_validated_against_impl=acc,
            samples=[core.clip(r, 1500) for r in out[:: max(1, len(out) // 3)][:3]], exhaustive=bool(exhaustive and n_tlc == n_enum * reps),
            evaluations=len(out), distinct_nontrivial=len(distinct),
            configurations_enumerated_by_tlc=n_enum, configurations_replayed=n_tlc, seeded_instances_per_structure=reps, extra_seeded_records=len(out) - n_tlc, emitters=mc_info,
            records_rejected=len(rej), rejected_by_clause=clauses, known_finding_hits=n_known, binding_selftests_rejected=nself, rule=rule)
        core.write_evidence(pid, tier, seed, level, cov, assumptions, time.time() - t0, n_new)
        print(f"{pid} [{tier}] configs(TLC)={n_tlc} extras={len(out) - n_tlc} accepted={acc} rejected={len(rej)} "
              f"(new={n_new} known={n_known}) wall={time.time() - t0:.0f}s")
        return rc
    finally:
        sc.cleanup()
