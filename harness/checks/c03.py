"""C03 - total loss is the sum of its terms; dynamic term is the batch-mean residual MSE."""
from . import _func, _loss


def run(tier, seed):
    q = tier == "quick"
    return _func.run(
        "C03", tier, seed, emitters=[("MC_Loss", _loss.MC % ("C11L", 8), "MC_Loss_C03_spinn"), ("MC_Loss", _loss.MC % ("C12", 8), "MC_Loss_C03_obsparams"), ("MC_Loss", _loss.MC % ("C03", 4 if q else 8), "MC_Loss_C03")],
        extras=lambda s: [], prepare=_loss.prepare_filtered(("dyn",), 400 if q else 0, always=lambda s: s.get("rshape") == "scalar" and s.get("b", 1) >= 2), sig=_loss.sig,
        rule="TLC enumerates loss kind x residual components 1..3 x scalar/per-component weights x batch size x every subset of the other "
             "configured terms x twin (base, permuted batch, two halves, re-weighted) x evaluate/__call__ x dynamic loss absent; each "
             "structure is instantiated with seeded polynomial networks / residual maps / integer batches and evaluated by the real loss; "
             "expected terms recomputed by LossSemantics.tla; the consequences (permutation invariance, halves, linearity) are checked as "
             "lemmas of the oracle on the twin records; + the structures of the parameter family (C12) that carry an observation batch with "
             "observed equation parameters (the dynamic term must not see them); distinct = distinct structure",
        assumptions=["polynomial networks and residual maps, integer batches (exact under x64)",
                     "for C03 only the total, the dynamic term and the exact zero of unconfigured terms are compared (other terms: C04 C05)"])
