"""C10 - network wrappers honour their calling and output conventions."""
from __future__ import annotations

import random

from .. import lossrec
from . import _func

MC = """SPECIFICATION Spec
INVARIANT Emit
"""


def prepare(budget):
    def f(structs, seed):
        idx = list(range(len(structs)))
        if budget and len(idx) > budget:
            random.Random(5 * seed + 3).shuffle(idx)
            idx = sorted(idx[:budget])
        return [lossrec.expand_net(structs[k], seed) for k in idx]
    return f


def sig(r):
    s = {k: (v if isinstance(v, (int, str, bool)) else str(v)) for k, v in r["struct"].items()}
    s["exc"] = (r.get("exc") or "").split(":")[0]
    return s


def run(tier, seed):
    q = tier == "quick"
    return _func.run(
        "C10", tier, seed, emitters=[("MC_Net", MC, "MC_Net")], extras=lambda s: [], prepare=prepare(0), sig=sig,
        rule="TLC enumerates wrapper (PINN, HYPERPINN, SPINN) x equation type x outputs 1..3 x input transform (shift by a parameter) x "
             "output transform (scale by a parameter + first input: does not commute with the input transform) x shared-output slices x "
             "full / bare parameters x scalar / length-one time x depth x activation; SPINN: d 1..3 x r 1..3 x m 1..2 x batch 1..3, every "
             "grid slot compared with sum_r prod_d f_d; HYPERPINN: inner weights = integer linear map of the designated parameters, split "
             "by cumulative leaf sizes, row-major; networks are built by the real factories (create_PINN / create_SPINN / "
             "create_HYPERPINN) and given integer weights; distinct = distinct structure",
        assumptions=["integer weights, activations identity / square (exact under x64); the non-stationary wrappers are exercised with a "
                     "length-one time only; bare parameters only where no transform / hyper-network needs the equation parameters"])
