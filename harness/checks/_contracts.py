"""Contract leg (spec/Contracts.tla): TLC enumerates constructor / solve configurations with the expected
accept-or-reject verdict and normalised attributes; the real code is tried on each."""
from __future__ import annotations

import random

from .. import core

CFG = "SPECIFICATION Spec\nINVARIANT Emit\n"


def leg(kinds, budget):
    def run(tier, seed):
        sc = core.Scratch("contracts")
        try:
            r = core.run_tlc("Contracts", CFG, sc, workers=1, tag="Contracts")
            core.tlc_must_pass(r, "Contracts")
            recs = [p for p in r.prints if isinstance(p, dict) and p.get("kind") == "contract" and p["c"]["kind"] in kinds]
            if not recs:
                raise core.MachineryError("Contracts.tla emitted nothing for " + str(kinds))
            total = len(recs)
            if tier == "quick" and budget and len(recs) > budget:
                random.Random(11 * seed + 3).shuffle(recs)
                recs = recs[:budget]
            out = core.run_drivers("harness.drv_contracts:run_case", recs, x64=False)
            crashed = [o for o in out if "tb" in o]
            if crashed:
                raise core.MachineryError("driver crashed: " + crashed[0]["tb"])
            viol = []
            for o in out:
                e, b, c = o["exp"], o["obs"], o["c"]
                clause = None
                if e["accept"] and not b["accept"]:
                    clause = "ContractRejectsValidConfiguration"
                elif not e["accept"] and b["accept"]:
                    clause = "ContractAcceptsInvalidConfiguration"
                elif e["accept"] and (e["nb"] != b["nb"] or e["bb"] != b["bb"]):
                    clause = "ContractNormalisedAttributeWrong"
                if clause:
                    viol.append(dict(clause=clause, sig=dict(leg="contract", **{k: (v if isinstance(v, (int, str, bool)) else str(v)) for k, v in c.items()}),
                                     detail=b.get("exc", ""), driver="harness.drv_contracts:run_case", cfg=o, record=o))
            stats = dict(contract_configurations_enumerated=total, contract_configurations_tried=len(out),
                         contract_rejections_expected=sum(1 for o in out if not o["exp"]["accept"]), contract_states=r.distinct)
            return viol, stats
        finally:
            sc.cleanup()
    return run
