"""C02 - built-in dynamic losses equal the residual of their documented equation."""
from __future__ import annotations

from .. import lossrec
from . import _func

MC = """SPECIFICATION Spec
INVARIANT Emit
"""


FWD_EQS = ("masscons", "burgers", "fisher", "ou", "ns")


def prepare(structs, seed):
    # equation structures (MC_Equations) + the separable-network branches of the built-in equations (MC_FwdRev, equations only)
    return [lossrec.expand_fr(s, seed) if "M" in s and "op" in s else lossrec.expand_eq(s, seed)
            for s in structs if not ("M" in s and "op" in s) or s["op"] in FWD_EQS]


def sig(r):
    if "struct" in r and "eq" not in r:
        return dict({k: (v if isinstance(v, (int, str, bool)) else str(v)) for k, v in r["struct"].items()}, exc=(r.get("exc") or "").split(":")[0])
    return dict(eq=r["eq"], role=r["role"], layout=r["layout"], Tmax=r["Tmax"], dim=r["dim"], exc=(r.get("exc") or "").split(":")[0])


def run(tier, seed):
    return _func.run(
        "C02", tier, seed, emitters=[("MC_Equations", MC, "MC_Equations"), ("MC_FwdRev", 'CONSTANT Sel = "equations"\n' + MC, "MC_FwdRev_equations")], extras=lambda s: [], prepare=prepare, sig=sig,
        rule="TLC enumerates equation (Burgers, Fisher-KPP 1-D/2-D, OU Fokker-Planck 2-D, mass conservation, Navier-Stokes, generalized "
             "Lotka-Volterra) x Tmax 1,2,4 x parameter role under test (each parameter in turn the only non-trivial one, or all) x network/"
             "parameter key layout (dict orders, key names, flat vs per-key nested parameters, position of the main species) x 2 seeded "
             "instances; candidates are integer polynomial fields (GLV: c (1+t)^m at 1+t in {1,2,4,8}); the residual returned by "
             "DynamicLoss.evaluate must equal Equations.tla exactly (rationals); + the separable-network (forward-mode) branches of mass "
             "conservation, Burgers, Fisher-KPP, OU Fokker-Planck and Navier-Stokes on polynomial SPINNs (structures of MC_FwdRev); "
             "distinct = distinct structure",
        assumptions=["polynomial candidates (exact under x64); the GLV docstring is not in log form and its signs differ from the code and "
                     "the notebook cross-check: the oracle follows the log form, the docstring sign is a documentation remark"])
