"""C06 - derivative keys route each term's gradient to exactly the selected parameters."""
from __future__ import annotations

from . import _func

MC = """CONSTANTS LKind = "%s"
Stride = %d
SPECIFICATION Spec
INVARIANT Emit
"""
STR = {"nn_params": [True, False, False], "eq_params": [False, True, True], "both": [True, True, True]}
NT = dict(ode=3, statio=4, nonstatio=5)


def prepare(recs, seed):
    """group the masks emitted by TLC into batches (one compiled value_and_grad per loss kind and worker)"""
    tasks = []
    by = {}
    for r in recs:
        by.setdefault(r["lkind"], []).append(r)
    for lk, ms in by.items():
        sysl = lk in ("sysode", "syspde")
        step = 16 if sysl else 256          # system losses are rebuilt through their constructor for every specification
        for k in range(0, len(ms), step):
            tasks.append(dict(kind="sysgradbatch" if sysl else "gradbatch", lkind=lk, seed=seed, masks=ms[k:k + step]))
    return tasks


def extras(seed):
    tasks = []
    for lk, nt in NT.items():
        ms = []
        names = list(STR)
        for a in range(3 ** min(nt, 3)):       # string form: every combination on the first three terms
            strs = [names[(a // 3 ** k) % 3] for k in range(nt)]
            ms.append(dict(mask=[STR[s] for s in strs], form="str", strs=strs, src="str"))
            if a % 2:
                ms.append(dict(mask=[STR[s] for s in strs], form="str", strs=strs, src="str_pos", pos=True))     # positional arguments, documented order
        ms.append(dict(mask=[[True, False, False]] * nt, form="default", src="default"))
        # string form with only ONE term given: every omitted term defaults to the network parameters
        for j in range(nt):
            for sname in ("both", "eq_params"):
                strs = [sname if k == j else None for k in range(nt)]
                ms.append(dict(mask=[STR[sname] if k == j else [True, False, False] for k in range(nt)], form="str", strs=strs, src="str_partial"))
        # from_str given a MIX of strings and boolean trees (documented): every term in turn given as a tree, the others as strings / omitted,
        # and every term but one given as (pairwise different) trees
        for j in range(nt):
            for a in range(6):
                tree = [bool((a + 1) & 1), bool((a + 1) & 2), bool((a + 1) & 4)]
                strs = ["TREE" if k == j else [names[(a + k) % 3], None][(a + k + j) % 4 == 3] for k in range(nt)]
                ms.append(dict(mask=[tree if k == j else (STR[strs[k]] if strs[k] else [True, False, False]) for k in range(nt)], form="str", strs=strs, src="str_mixed"))
            trees = [[bool((k + j + 1) & 1), bool((k + j + 1) & 2), bool((k + j + 1) & 4)] for k in range(nt)]
            strs = [names[j % 3] if k == j else "TREE" for k in range(nt)]
            ms.append(dict(mask=[STR[strs[k]] if k == j else trees[k] for k in range(nt)], form="str", strs=strs, src="str_mixed"))
        # the plain constructor with only some terms specified (each term alone, each pair of neighbours): the omitted terms default to
        # the network parameters, whatever was given for the others
        for j in range(nt):
            for tree in ([False, True, False], [True, True, True], [False, False, True]):
                for given in ([k == j for k in range(nt)], [k in (j, (j + 1) % nt) for k in range(nt)]):
                    ms.append(dict(mask=[tree if given[k] else [True, False, False] for k in range(nt)], form="bool_partial", given=given, src="bool_partial"))
        # boolean trees written with their equation-parameter keys in another order, evaluated eagerly through a closure
        for a in range(24):
            bits = [[bool((a >> (k % 3)) & 1), bool(((a + k) >> 1) & 1), not bool(((a + k) >> 1) & 1)] for k in range(nt)]
            ms.append(dict(mask=bits, form="bool_rev", src="bool_rev"))
        tasks.append(dict(kind="gradbatch", lkind=lk, seed=seed, masks=ms))
        # the same loss evaluated with a PARAMETER BATCH (a third key k3 arrives with the batch): every term goes through its
        # vmapped-parameters path.  Masks: all / none, every single pair off, every single pair on, the strings, the default
        pm = [dict(mask=[[True] * 3] * nt, form="bool", src="pbatch"), dict(mask=[[False] * 3] * nt, form="bool", src="pbatch")]
        for t in range(nt):
            for g in range(3):
                for on in (True, False):
                    pm.append(dict(mask=[[(on if (k, j) == (t, g) else not on) for j in range(3)] for k in range(nt)], form="bool", src="pbatch"))
        for sname in names:
            pm.append(dict(mask=[STR[sname]] * nt, form="str", strs=[sname] * nt, src="pbatch_str"))
        pm.append(dict(mask=[[True, False, False]] * nt, form="default", src="pbatch_default"))
        tasks.append(dict(kind="gradbatch", lkind=lk, seed=seed, masks=pm, pbatch=True))
        # ... and with an equation parameter OBSERVED with the observations (the observation term overrides it row by row)
        tasks.append(dict(kind="gradbatch", lkind=lk, seed=seed, masks=[dict(m, src=m["src"].replace("pbatch", "obsk")) for m in pm], pbatch="obsk"))
    return tasks


def sig(r):
    return dict(lkind=r["lkind"], form=r["form"], src=r["src"])


def run(tier, seed):
    q = tier == "quick"
    emitters = [("MC_Masks", MC % ("ode", 1), "MC_Masks_ode"), ("MC_Masks", MC % ("statio", 8 if q else 1), "MC_Masks_statio"),
                ("MC_Masks", MC % ("nonstatio", 64 if q else 1), "MC_Masks_nonstatio"),
                ("MC_Masks", MC % ("sysode", 16 if q else 2), "MC_Masks_sysode"), ("MC_Masks", MC % ("syspde", 2048 if q else 128), "MC_Masks_syspde")]
    return _func.run(
        "C06", tier, seed, emitters=emitters, extras=extras, prepare=prepare, sig=sig, chunk=3000, exhaustive=not q, thorough_reps=1,
        rule="TLC enumerates EVERY assignment of {selected, not selected} to every (loss term, parameter group) pair: 512 (ODE), 4096 "
             "(stationary), 32768 (non-stationary) masks (quick: all ODE masks, a stride-selected covering subset of the others); for each "
             "mask the gradient of the total loss w.r.t. the network parameters and each equation parameter must equal the exact sum, over "
             "the selected terms, of that term's gradient (measured once with everything selected), term values must not depend on the "
             "mask; + the string form of every specification and the default; + the same losses evaluated with a parameter batch "
             "(vmapped-parameters path of every term); distinct = distinct mask",
        assumptions=["the network is u = V*k1 + k2 (affine output transform) so that every (term, group) pair has a non-zero gradient; exact "
                     "rationals under x64", "the per-term reference gradient is jax.grad of the term value returned by the same loss with every "
                     "pair selected"])
