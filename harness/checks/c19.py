"""C19 - validation is called on schedule; early stopping and best parameters follow it."""
from . import _solve


def select(scen, rng, quick):
    pool = [s for s in scen if s["C"]["vkind"] != "none" and (s["C"]["fault"] < 0 or s["C"]["fault"] % 2 == 0)]
    key = lambda s: (s["C"]["vkind"], s["C"]["ce"], s["C"]["patience"], s["C"]["earlyOn"], s["exp"]["iters"] < s["C"]["n"], s["C"]["n"], s["C"]["fault"] >= 0)
    return _solve.stratified(pool, key, 140 if quick else 1500, rng)


def run(tier, seed):
    return _solve.run(
        "C19", tier, seed, select=select, extra_cases=lambda rng, q: [],
        needs=["scripted", "builtin", "stopped_early"],
        rule="MC: Solve.tla all validation outcome scripts (user module: improve/stop per call; ValidationLoss: loss values, patience, "
             "early-stopping on/off), periods, iteration counts, faults; every terminal state is emitted as a scenario and a stratified "
             "selection (vkind x period x patience x early x stopped? x n x fault?) is replayed into jinns.solve with a scripted "
             "AbstractValidationModule or the real ValidationLoss (own generators, optional observation generator); criterion history, "
             "stop iteration and best parameters decode exactly; distinct = distinct scenario x driver options",
        assumptions=["tagged arithmetic (x64): parameter version, batch identity and validation criterion decode exactly from the returned arrays",
                     "ValidationLoss is driven through its public constructor with a crafted loss whose value is rank^2 * 4^12 + batch tags",
                     "scenario selection is sampled (VERIF_SEED) from TLC's exhaustive emission"])
