"""C19 - validation is called on schedule; early stopping and best parameters follow it."""
from . import _solve


def select(scen, rng, quick):
    pool = [s for s in scen if s["C"]["vkind"] != "none" and (s["C"]["fault"] < 0 or s["C"]["fault"] % 2 == 0)]
    key = lambda s: (s["C"]["vkind"], s["C"]["ce"], s["C"]["patience"], s["C"]["earlyOn"], s["exp"]["iters"] < s["C"]["n"], s["C"]["n"], s["C"]["fault"] >= 0)
    return _solve.stratified(pool, key, 140 if quick else 1500, rng)


VL_CFG = """CONSTANTS MaxLen = %d
MaxVal = 3
MaxPatience = %d
EmitScenarios = %s
SPECIFICATION Spec
INVARIANT ImprovementIffStrictMinimum
INVARIANT StopIffPatienceExhausted
INVARIANT NeverStopsWhenDisabled
INVARIANT BestIsMinimum
INVARIANT OneDrawPerInvocation
INVARIANT Emit
"""
VL_TRACE = """SPECIFICATION Spec
INVARIANT Report
INVARIANT Done
POSTCONDITION Summary
CHECK_DEADLOCK FALSE
"""


def direct_validation_leg(tier, seed):
    """ValidationLoss as a state machine: Validation.tla model-checked, every maximal value script emitted and replayed by
    calling the real module directly (outside solve); returns (violations, stats)"""
    import random

    from .. import core, tracecheck

    q = tier == "quick"
    sc = core.Scratch("C19vl")
    try:
        r_mc = core.run_tlc("Validation", VL_CFG % (6 if q else 7, 3, "FALSE"), sc, workers=core.NCPU, tag="MC_Validation", coverage=True)
        core.tlc_must_pass(r_mc, "MC_Validation")
        r_em = core.run_tlc("Validation", VL_CFG % (4 if q else 6, 2 if q else 3, "TRUE"), sc, workers=1, tag="Emit_Validation")
        core.tlc_must_pass(r_em, "Emit_Validation")
        scripts = [p for p in r_em.prints if isinstance(p, dict) and p.get("kind") == "vl_script"]
        rng = random.Random(seed)
        for k, s in enumerate(scripts):
            s.update(seed=seed + k % 7, bv=[2, 4, 1][k % 3], vobs=bool(k % 2), vpar=bool((k // 2) % 2))
        if q and len(scripts) > 250:
            rng.shuffle(scripts)
            scripts = scripts[:250]
        out = core.run_drivers("harness.drv_validation:run_case", scripts, x64=True)
        crashed = [t for t in out if "tb" in t]
        if crashed:
            raise core.MachineryError("driver crashed: " + crashed[0]["tb"])
        slim = [{k: v for k, v in t.items() if k != "sc"} for t in out]
        rej, acc, res = tracecheck.validate("Trace_Validation", VL_TRACE, slim, sc, "trC19vl")
        viol = []
        for x in rej:
            t = out[x["tid"]]
            viol.append(dict(clause=x["clause"], sig=dict(leg="direct", patience=t["patience"], earlyOn=t["earlyOn"], vobs=bool(t["sc"].get("vobs")),
                                                          vpar=bool(t["sc"].get("vpar")), bv=t["sc"].get("bv")),
                             detail=f"event {x['ev']}", driver="harness.drv_validation:run_case", cfg=t["sc"], record=t))
        stats = dict(validation_model_states=r_mc.distinct, validation_scripts_emitted=len(scripts), validation_scripts_replayed=len(out),
                     validation_scripts_accepted=acc, validation_calls=sum(len(t["ev"]) for t in out))
        return viol, stats
    finally:
        sc.cleanup()


def run(tier, seed):
    return _solve.run(
        "C19", tier, seed, select=select, extra_cases=lambda rng, q: [],
        needs=["scripted", "builtin", "stopped_early", "validation_with_own_param_generator"], extra_leg=direct_validation_leg,
        rule="MC: Solve.tla all validation outcome scripts (user module: improve/stop per call; ValidationLoss: loss values, patience, "
             "early-stopping on/off), periods, iteration counts, faults; every terminal state is emitted as a scenario and a stratified "
             "selection (vkind x period x patience x early x stopped? x n x fault?) is replayed into jinns.solve with a scripted "
             "AbstractValidationModule or the real ValidationLoss (own generators, optional observation generator); criterion history, "
             "stop iteration and best parameters decode exactly; distinct = distinct scenario x driver options",
        assumptions=["tagged arithmetic (x64): parameter version, batch identity and validation criterion decode exactly from the returned arrays",
                     "ValidationLoss is driven through its public constructor with a crafted loss whose value is rank^2 * 4^12 + batch tags",
                     "scenario selection is sampled (VERIF_SEED) from TLC's exhaustive emission"])
