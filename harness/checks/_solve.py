"""Shared flow of the solver checks (C07 C18 C19): model-check Solve.tla, let TLC emit every terminal
state as a scenario, replay a stratified selection into the real jinns.solve, validate the decoded
results with Trace_Solve.tla (which recomputes the expected result from the scenario)."""
from __future__ import annotations

import json
import random
import time

from .. import core, tracecheck

MC_CFG = """CONSTANTS MaxN = %d
MaxCE = %d
MaxPatience = %d
MaxVal = %d
WithFaults = %s
WithScript = %s
WithBuiltin = %s
EmitScenarios = %s
SPECIFICATION Spec
INVARIANT RunsExactlyN
INVARIANT HistoryIsReferenceLoop
INVARIANT HistoryLengths
INVARIANT StopsAfterFault
INVARIANT ReturnedParamsFinite
INVARIANT CalledOnSchedule
INVARIANT CriterionCarriedForward
PROPERTY StopRightAfterRequest
INVARIANT StopEndsRun
INVARIANT BestIsLastImprovement
INVARIANT BuiltinNeverStopsWhenDisabled
INVARIANT BuiltinStopNeedsPatience
PROPERTY Terminates
INVARIANT Emit
"""
TRACE_CFG = """SPECIFICATION Spec
INVARIANT Report
INVARIANT Done
POSTCONDITION Summary
CHECK_DEADLOCK FALSE
"""

OPTS = [dict(npts=8, b=2), dict(npts=6, b=4), dict(npts=8, b=8), dict(npts=5, b=2), dict(npts=8, b=4), dict(npts=7, b=1)]
TRACKED = ["eq", "both", "none", "nn"]
AUX = ["none", "param", "obs", "both"]


def emit_scenarios(sc, bounds, faults, script, builtin, tag):
    b = lambda v: "TRUE" if v else "FALSE"
    cfg = MC_CFG % (bounds + (b(faults), b(script), b(builtin), "TRUE"))
    r = core.run_tlc("Solve", cfg, sc, workers=1, tag=tag, timeout=1800)
    core.tlc_must_pass(r, tag)
    scen = [p for p in r.prints if isinstance(p, dict) and p.get("tag") == "SCENARIO"]
    # solve(n_iter=0, ...) with validation / auxiliary generators cannot even be traced (size-0 arrays are indexed while
    # tracing the loop body): degenerate, not claimed; n = 0 stays in the model and in the C07 driver family (plain case)
    scen = [p for p in scen if p["C"]["n"] > 0]
    if not scen:
        raise core.MachineryError("Solve.tla emitted no scenario")
    return scen, r


def stratified(scen, key, budget, rng):
    groups = {}
    for s in scen:
        groups.setdefault(key(s), []).append(s)
    for g in groups.values():
        rng.shuffle(g)
    out = []
    ks = sorted(groups, key=str)
    while len(out) < budget and any(groups[k] for k in ks):
        for k in ks:
            if groups[k] and len(out) < budget:
                out.append(groups[k].pop())
    return out, len(groups)


def set_lkind(o, lk, k):
    o["lkind"] = lk
    if lk == "nonstatio":          # identities (time id, point id) must stay below 8: 2 times x 4 points
        o["npts"], o["ntp"] = 4, 2
        o["b"] = o["b"] if o["b"] in (1, 2, 4) else 2
        o["bt"] = 1 + k % 2
    return o


def with_opts(scen, rng, aux_ok=True):
    cases = []
    for k, s in enumerate(scen):
        C = s["C"]
        o = dict(OPTS[k % len(OPTS)])
        o["seed"] = rng.randrange(1000)
        o["tracked"] = TRACKED[(k // 2) % 4]
        aux = AUX[(k // 3) % 4] if aux_ok else "none"
        if o["b"] > 4 and aux in ("obs", "both"):
            aux = "param"
        o["aux"] = aux
        o["shard"] = bool(aux in ("obs", "both") and (k // 5) % 2)      # the non-jitted loop (obs_batch_sharding given)
        o["partial"] = bool((k // 2) % 2) and C["fault"] >= 0 and C["origin"] != "loss"      # NaN in ONE entry of a two-entry leaf
        # loss kind / generator kind of the training problem (the built-in validation loss of the driver is an ODE loss)
        lk = ["ode", "statio", "nonstatio"][(k // 7) % 3] if C["vkind"] != "builtin" else "ode"
        set_lkind(o, lk, k)
        o["bf16"] = bool(lk == "ode" and k % 3 == 0 and C["vkind"] not in ("builtin", "script") and o.get("optimizer", "dec") == "dec")      # network leaf stored in bfloat16
        o["verbose"] = bool(k % 5 == 2)                      # solve(verbose=True) prints; nothing else may depend on it
        o["infleaf"] = bool(k % 4 == 1)                      # the parameters hold an unused leaf [-inf, +inf]: NaN-free, training must run
        o["rar"] = bool(lk == "ode" and (k // 3) % 2)        # generator built with the refinement option (store already full)
        if C["vkind"] == "builtin":
            o["bval"] = [2, 4, o["npts"] if o["npts"] in (1, 2, 4, 8) else 2][k % 3]
            o["vobs"] = bool(k % 2) and o["bval"] <= 4
            o["vparam"] = bool((k // 2) % 2)          # the validation loss owns a parameter generator
        cases.append(dict(C=C, opt=o))
    return cases


def run(pid, tier, seed, *, select, extra_cases, rule, assumptions, level="model_checking", mc_bounds=None, needs=None, extra_leg=None):
    t0 = time.time()
    sc = core.Scratch(pid)
    rng = random.Random(1000003 * seed + 17)
    try:
        core.repo_is_importable()
        q = tier == "quick"
        bounds = mc_bounds or ((4, 2, 1, 2) if q else (6, 3, 2, 3))
        # (M) full model check with 16 workers (no emission), then emission with 1 worker
        cfg = MC_CFG % (bounds + ("TRUE", "TRUE", "TRUE", "FALSE"))
        r_mc = core.run_tlc("Solve", cfg, sc, workers=core.NCPU, tag="MC_Solve", coverage=True, timeout=3000)
        core.tlc_must_pass(r_mc, "MC_Solve")
        ebounds = (4, 2, 1, 2) if q else (5, 3, 2, 3)
        scen, r_em = emit_scenarios(sc, ebounds, True, True, True, "Emit_Solve")
        chosen, ngroups = select(scen, rng, q)
        cases = with_opts(chosen, rng) + extra_cases(rng, q)
        recs = core.run_drivers("harness.drv_solve:run_case", cases, x64=True)
        crashed = [r for r in recs if "tb" in r]
        if crashed:
            raise core.MachineryError("driver crashed: " + crashed[0]["tb"] + json.dumps(crashed[0]["cfg"])[:400])
        raised = [r for r in recs if r.get("codeexc")]
        recs = [r for r in recs if not r.get("codeexc")]
        slim = [dict(C=r["C"], obs=r["obs"], draws=r["draws"], genstates=r["genstates"], decoded=r["decoded"]) for r in recs]
        rej, acc, res = tracecheck.validate("Trace_Solve", TRACE_CFG, slim, sc, "tr" + pid)
        viol = []
        for r in raised:            # jinns.solve raised on a legal training program
            C = r["case"]["C"]
            viol.append(dict(clause="SolveRaised", sig=dict(vkind=C["vkind"], n=C["n"], fault=C["fault"], origin=C["origin"], exc=r["codeexc"].split(" ")[0],
                                                            **{k: v for k, v in r["case"]["opt"].items() if k != "seed"}),
                             detail=r["codeexc"], driver="harness.drv_solve:run_case", cfg=r["case"], record=dict(codeexc=r["codeexc"])))
        for x in rej:
            r = recs[x["tid"]]
            C = r["C"]
            sig = dict(vkind=C["vkind"], ce=C["ce"], n=C["n"], fault=C["fault"], origin=C["origin"], patience=C["patience"],
                       earlyOn=C["earlyOn"], resumed=r["case"].get("resume") is not None, **{k: v for k, v in r["case"]["opt"].items() if k != "seed"})
            viol.append(dict(clause=x["clause"], sig=sig, detail=f"expected iterations {x['ev']}", driver="harness.drv_solve:run_case",
                             cfg=r["case"], record=dict(C=C, obs=r["obs"], draws=r["draws"])))
        import copy
        badt = {x["tid"] for x in rej}
        st_recs = []
        base = next((r for k, r in enumerate(slim) if k not in badt and r["decoded"] and r["C"]["n"] >= 2 and len(r["obs"]["hist"]) >= 2
                     and r["obs"]["hist"][1]["ver"] >= 0 and not r["obs"]["hist"][1]["nan"] and not r["obs"]["hist"][0]["nan"]), None)
        if base is not None:
            c = copy.deepcopy(base); c["obs"]["params"] += 1
            st_recs.append((c, "ReturnedParamsWrong", "returned parameter version off by one"))
            c = copy.deepcopy(base); c["obs"]["hist"][1]["ver"] += 1
            st_recs.append((c, "LossAtWrongParams", "loss history entry evaluated at the wrong parameters"))
            c = copy.deepcopy(base); c["obs"]["hist"][0]["t"], c["obs"]["hist"][1]["t"] = c["obs"]["hist"][1]["t"], c["obs"]["hist"][0]["t"]
            if c["obs"]["hist"][0]["t"] != base["obs"]["hist"][0]["t"]:
                st_recs.append((c, "LossOnWrongBatch", "two batches swapped in the loss history"))
        nself = tracecheck.selftest("Trace_Solve", TRACE_CFG, st_recs, sc, "st" + pid)
        leg_stats = {}
        if extra_leg is not None:
            v2, leg_stats = extra_leg(tier, seed)
            viol += v2
        rc, n_new, n_known = core.report(pid, viol)
        stats = dict(faulty=sum(1 for r in recs if r["C"]["fault"] >= 0), stopped_early=sum(1 for r in recs if 0 <= len([h for h in r["obs"]["hist"] if h["ver"] != -2]) < r["C"]["n"] and r["C"]["fault"] < 0),
                     scripted=sum(1 for r in recs if r["C"]["vkind"] == "script"), builtin=sum(1 for r in recs if r["C"]["vkind"] == "builtin"),
                     resumed=sum(1 for r in recs if r["case"].get("resume") is not None), non_decoded_optimizers=sum(1 for r in recs if not r["decoded"]),
                     with_aux=sum(1 for r in recs if r["case"]["opt"].get("aux", "none") != "none"),
                     sharded_loop=sum(1 for r in recs if r["case"]["opt"].get("shard")),
                     partial_leaf_faults=sum(1 for r in recs if r["case"]["opt"].get("partial")),
                     bfloat16_network_leaf=sum(1 for r in recs if r["case"]["opt"].get("bf16")),
                     params_with_infinite_leaf=sum(1 for r in recs if r["case"]["opt"].get("infleaf")),
                     generator_with_refinement_option=sum(1 for r in recs if r["case"]["opt"].get("rar")),
                     validation_with_own_param_generator=sum(1 for r in recs if r["case"]["opt"].get("vparam")),
                     pde_losses=sum(1 for r in recs if r["case"]["opt"].get("lkind", "ode") != "ode"))
        for k in (needs or []):
            if not stats.get(k) and not raised:
                raise core.MachineryError(f"vacuous: no scenario of kind '{k}' was replayed")
        tstates = sum(r.distinct for r in res)

        def touched(r):
            return len([h for h in r["obs"]["hist"] if h["ver"] != -2])

        nontrivial = {json.dumps([r["C"], r["case"]["opt"], r["case"].get("resume")], sort_keys=True) for r in recs
                      if (touched(r) == r["C"]["fault"] + 1 if pid == "C18" else touched(r) >= 1)}
        cov = dict(
            evaluations=len(recs), distinct_nontrivial=len(nontrivial),
            states=r_mc.distinct + r_em.distinct + tstates, transitions=r_mc.generated + r_em.generated + sum(r.generated for r in res),
            traces_validated_against_impl=acc,
            samples=[core.clip(dict(C=r["C"], opt=r["case"]["opt"], obs=r["obs"]), 1800) for r in recs[:: max(1, len(recs) // 2)][:2]],
            exhaustive=False, mc=dict(bounds=dict(zip(("MaxN", "MaxCE", "MaxPatience", "MaxVal"), bounds)), distinct=r_mc.distinct, generated=r_mc.generated, depth=r_mc.depth),
            scenarios_emitted_by_tlc=len(scen), scenario_strata=ngroups, scenarios_replayed=len(recs), replay_stats=stats,
            records_rejected=len(rej), known_finding_hits=n_known, binding_selftests_rejected=nself, rule=rule, **leg_stats)
        core.write_evidence(pid, tier, seed, level, cov, assumptions, time.time() - t0, n_new)
        print(f"{pid} [{tier}] MC states={r_mc.distinct} scenarios={len(scen)} replayed={len(recs)} accepted={acc} rejected={len(rej)} "
              f"(new={n_new} known={n_known}) {stats} wall={time.time() - t0:.0f}s")
        return rc
    finally:
        sc.cleanup()
