"""C18 - on non-finite parameters training stops and returns the last finite ones."""
from . import _solve


def select(scen, rng, quick):
    pool = [s for s in scen if s["C"]["fault"] >= 0]
    key = lambda s: (s["C"]["origin"], s["C"]["fault"], s["C"]["vkind"], s["exp"]["iters"] <= s["C"]["fault"], s["C"]["n"])
    return _solve.stratified(pool, key, 140 if quick else 1500, rng)


def run(tier, seed):
    return _solve.run(
        "C18", tier, seed, select=select, extra_cases=lambda rng, q: [], level="fault_enumeration", needs=["faulty", "partial_leaf_faults"],
        rule="fault space = iteration index 0..n-1 x origin {loss value, gradient of a network leaf, gradient of an equation parameter, "
             "optimizer update} x validation kind x options; TLC enumerates it exhaustively on Solve.tla (StopsAfterFault, "
             "ReturnedParamsFinite) and emits every terminal state; a stratified selection (origin x position x validation x masked-by-"
             "early-stop x n) is replayed into jinns.solve with real fault injectors (NaN residual, custom_vjp poisoning one leaf or ONE ENTRY "
             "of a two-entry leaf, NaN optimizer update of a whole leaf or of one entry); non-trivial = fault actually reached before another stop; distinct = scenario x driver options",
        assumptions=["tagged arithmetic (x64) decodes returned parameters, histories and tracked values exactly",
                     "a poisoned single leaf leaves the other parameters of the failing update finite: the returned set must still be the previous version"])
