"""Shared flow of the RAR checks (C16 C17)."""
from __future__ import annotations

import time

from .. import core, tracecheck
from ._dg import sig_of

TRACE_CFG = """CONSTANT Prop = "%s"
SPECIFICATION Spec
INVARIANT Report
INVARIANT Done
POSTCONDITION Summary
CHECK_DEADLOCK FALSE
"""
RAR_CFG = """CONSTANTS MaxCap = %d
MaxSel = %d
MaxStart = %d
MaxEvery = %d
MaxIter = %d
InitCounter = "%s"
MaskUpTo = "%s"
TimeBase = "%s"
OnRestart = "%s"
MaxCalls = %d
SPECIFICATION Spec
%s
"""
RAR_PROPS = """PROPERTY NoStepBeforeStart
PROPERTY StepsExactlyOnSchedule
INVARIANT ActiveCount
INVARIANT NeverExceedsStore
PROPERTY MonitorAgrees
PROPERTY OnlyInactiveOverwritten
PROPERTY ActiveSlotsSurvive
PROPERTY AddedBecomeActive
PROPERTY EventuallySteps
"""
STORE_CFG = """CONSTANTS Cap = %d
MaxNStart = %d
MaxSel = %d
Sample = %d
MaxStart = %d
MaxEvery = %d
MaxB = %d
MaxIter = %d
SPECIFICATION Spec
INVARIANT ActiveCount
INVARIANT AddedAreTopResidual
PROPERTY OnSchedule
PROPERTY ActivePointsSurvive
PROPERTY OnlyInactiveOverwritten
PROPERTY StoreKeepsOtherPoints
PROPERTY MonitorAgrees
"""


def mc_runs(tier):
    q = tier == "quick"
    return [
        dict(module="Rar", tag="MC_Rar", cfg=RAR_CFG % (((5, 2, 2, 3, 9) if q else (7, 3, 3, 3, 12)) + ("period-1", "new", "own", "reset", 1, RAR_PROPS)),
             dead_ok=("Restart",)),          # a single training call: the Restart action is disabled by MaxCalls = 1
        # chained solve calls on the returned generator (Restart action)
        dict(module="Rar", tag="MC_Rar_restart", cfg=RAR_CFG % (((4, 2, 2, 3, 6) if q else (5, 2, 2, 3, 8)) + ("period-1", "new", "own", "reset", 2, RAR_PROPS))),
        dict(module="Rar", tag="MC_Rar_witness_stale_counter", cfg=RAR_CFG % (4, 2, 1, 3, 5, "period-1", "new", "own", "keep", 2, "PROPERTY StepsExactlyOnSchedule\n"),
             expect=("fail", "StepsExactlyOnSchedule"), workers=4),
        dict(module="RarStore", tag="MC_RarStore", cfg=STORE_CFG % ((5, 2, 2, 3, 1, 2, 2, 7) if q else (5, 3, 2, 3, 2, 2, 3, 8)), timeout=1500),
        # regression witnesses of the deviations found in (and repaired on) the pinned tree
        dict(module="Rar", tag="MC_Rar_witness_zero", cfg=RAR_CFG % (4, 2, 2, 3, 8, "zero", "new", "own", "reset", 1, "PROPERTY StepsExactlyOnSchedule\n"),
             expect=("fail", "StepsExactlyOnSchedule"), workers=4),
        dict(module="Rar", tag="MC_Rar_witness_lag", cfg=RAR_CFG % (4, 2, 2, 3, 8, "period-1", "old", "own", "reset", 1, "INVARIANT ActiveCount\n"),
             expect=("fail", "ActiveCount"), workers=4),
        dict(module="Rar", tag="MC_Rar_witness_base", cfg=RAR_CFG % (4, 2, 2, 3, 8, "period-1", "new", "space", "reset", 1, "PROPERTY OnlyInactiveOverwritten\n"),
             expect=("fail", "OnlyInactiveOverwritten"), workers=4),
    ]


def cases(tier, seed):
    q = tier == "quick"
    out = []
    sd = 611953 * seed
    starts = (0, 1, 3) if q else (0, 1, 2, 3)
    everys = (1, 2, 3)
    lands = ("mono", "peak", "anti")
    n = 0
    for start in starts:
        for every in everys:
            for (cap, ns, sel, sample, b) in ((6, 2, 2, 3, 2), (7, 3, 1, 2, 3), (5, 1, 2, 2, 1), (8, 2, 3, 4, 2), (6, 6, 1, 2, 2)):
                n += 1
                land = lands[n % 3]
                ret = ["vec", "scalar", "vec2", "scalar"][n % 4]
                iters = min(14, start + every * ((cap - ns) // sel + 2) + 1)
                k = sd + n
                if q and (n % 2) and cap > 6:
                    continue
                out.append(dict(kind="ode", cap_t=cap, nstart_t=ns, sel_t=sel, sample_t=sample, b_t=b, start=start, every=every,
                                iters=iters, seed=k, land=land, ret=ret, box=[0.0, 1.0] if n % 3 else [-1.0, 2.0]))
                out.append(dict(kind="statio", dim=1 + (n % 2), cap_x=cap, nstart_x=ns, sel_x=sel, sample_x=sample, b_x=b, start=start,
                                every=every, iters=iters, seed=k, land=land, ret=ret,
                                **(dict(boxy=[-2.0, -1.0]) if n % 4 == 1 else {})))        # rectangle: own bounds for the second coordinate
                # time and space with different initial counts, capacities and selected sizes
                cap2, ns2, sel2 = cap + 1 - (n % 3), max(1, ns + 1 - (n % 3)), 1 + (sel % 3)
                cap2 = max(cap2, ns2)
                if ret == "vec2":
                    ret = "vec"          # the non-stationary refinement reshapes the residual to (times, points): one component only
                out.append(dict(kind="nonstatio", dim=1 + ((n + 1) % 2), cap_t=cap, nstart_t=ns, sel_t=sel, sample_t=max(sample, 2), b_t=min(b, cap),
                                cap_x=cap2, nstart_x=ns2, sel_x=sel2, sample_x=max(sel2, 3), b_x=min(b, cap2), start=start, every=every,
                                iters=iters, seed=k, land=land, ret=ret,
                                **(dict(tbox=[2.0, 3.0], boxy=[-2.0, -1.0]) if n % 2 else {})))      # time interval / second coordinate with own bounds
                out.append(dict(kind="nonstatio", dim=1, cap_t=cap, nstart_t=ns, sel_t=sel, sample_t=max(sample, 2), b_t=min(b, cap),
                                cap_x=cap, nstart_x=ns, sel_x=sel, sample_x=max(sample, 2), b_x=min(b, cap), start=start, every=every,
                                iters=iters, seed=k, land=land, ret=ret))
    # time and space starting far apart (more initial time points than space points and conversely)
    for start in (0, 2):
        for every in (1, 2):
            for (ct, nt0, st_, cx, nx0, sx) in ((8, 5, 1, 8, 1, 1), (7, 1, 2, 8, 5, 1), (8, 6, 1, 6, 2, 2), (6, 2, 2, 8, 6, 1)):
                n += 1
                out.append(dict(kind="nonstatio", dim=1 + n % 2, cap_t=ct, nstart_t=nt0, sel_t=st_, sample_t=max(st_, 2), b_t=2, cap_x=cx,
                                nstart_x=nx0, sel_x=sx, sample_x=max(sx, 3), b_x=2, start=start, every=every, iters=start + every * 8 + 1,
                                seed=sd + n, land=lands[n % 3], ret="scalar"))
    # more points selected per step on one axis than candidates drawn on that axis (legal: the step ranks the candidate PAIRS)
    for start in (0, 1):
        for (ct, nt0, st_, smp_t, cx, nx0, sx, smp_x) in ((12, 2, 3, 2, 8, 2, 1, 3), (8, 2, 1, 3, 12, 3, 3, 2), (11, 2, 4, 3, 9, 1, 2, 2)):
            n += 1
            out.append(dict(kind="nonstatio", dim=1 + n % 2, cap_t=ct, nstart_t=nt0, sel_t=st_, sample_t=smp_t, b_t=2, cap_x=cx,
                            nstart_x=nx0, sel_x=sx, sample_x=smp_x, b_x=2, start=start, every=1, iters=start + 6,
                            seed=sd + n, land=lands[n % 3], ret=("scalar", "vec")[n % 2]))
    # the landscape given through a heterogeneous equation parameter (every third single-loss configuration)
    for k, c in enumerate(out):
        if k % 3 == 1:
            c["het"] = True
    # refinement driven by a SYSTEM loss (two equations of opposite sign sharing one unknown)
    sysl, seen = [], {}
    for k, c in enumerate(out):
        if k % (5 if q else 3) == 0 and c.get("ret") != "vec2":
            j = seen[c["kind"]] = seen.get(c["kind"], 0) + 1        # vector / scalar residuals alternate WITHIN each generator kind
            sysl.append(dict(c, sys=True, ret=("vec", "scalar")[j % 2]))
    out += sysl
    # chained training calls: the recorded history is a second call fed with the generator returned by a first call of
    # `resume` iterations (stopped inside / at the end of a period, before / after the start iteration)
    res = []
    for k, c in enumerate(out):
        if k % (5 if q else 2) == 0 and not c.get("sys"):
            j = k // (5 if q else 2)
            # lengths of the first call: before / at / after the start iteration, inside and at the end of a period
            for r in ((1 + j % 6,) if q else (1 + j % 6, 2 + (j // 2) % 7)):
                res.append(dict(c, resume=r))
    out += res
    # end-to-end through jinns.solve (hooks H1 + H2)
    e2e = [c for k, c in enumerate(out) if k % (9 if q else 3) == 0]
    # every second single-loss end-to-end run has a landscape that depends on the TRAINED parameter (the ranking flips at each iteration):
    # the step of iteration i must rank with the parameters after the gradient step of iteration i
    out += [dict(c, mode="solve", **({"pdep": True} if (j % 2 == 0 and not c.get("sys") and not c.get("het")) else {})) for j, c in enumerate(e2e)]
    return out


def run(pid, tier, seed, assumptions, rule):
    t0 = time.time()
    sc = core.Scratch(pid)
    try:
        core.repo_is_importable()
        states = trans = 0
        mc_info = []
        for m in mc_runs(tier):
            r = core.run_tlc(m["module"], m["cfg"], sc, workers=m.get("workers", core.NCPU), tag=m["tag"], timeout=m.get("timeout", 1800),
                             coverage=(m.get("expect", "pass") == "pass"))
            if m.get("expect", "pass") == "pass":
                core.tlc_must_pass(r, m["tag"], dead_ok=m.get("dead_ok", ()))
                states += r.distinct
                trans += r.generated
            else:
                core.tlc_must_fail(r, m["tag"], m["expect"][1])
            mc_info.append(dict(run=m["tag"], distinct=r.distinct, generated=r.generated, depth=r.depth,
                                expect=m.get("expect", "pass"), errors=r.errors[:1], wall_s=round(r.wall, 1),
                                actions_taken={a: v[1] for a, v in r.coverage.items() if a != "Init"}))
        # unbounded sizes: the schedule / capacity arithmetic of one axis by an inductive invariant (Apalache)
        n_apa = core.run_apalache("ScheduleInd", [("Init=>IndInv", "Init", "IndInv", 0), ("IndInv inductive", "IndInit", "IndInv", 1),
                                                  ("IndInv=>OnSchedule/WithinStore", "IndInit", "Claims", 0)], sc) if pid == "C16" else 0
        from .. import repotrace
        fut = repotrace.start(tier, rar=True)
        cfgs = cases(tier, seed)
        traces = core.run_drivers("harness.drv_rar:run_case", cfgs)
        repo_trs, repo_line = repotrace.rar_traces(fut)
        traces = traces + repo_trs
        crashed = [t for t in traces if "tb" in t]
        if crashed:
            raise core.MachineryError("driver crashed: " + crashed[0]["tb"])
        raised = [t for t in traces if t.get("codeexc")]
        traces = [t for t in traces if not t.get("codeexc")]
        broken = [t for t in traces if t.get("exc")]
        if broken:
            raise core.MachineryError(f"trace could not be recorded ({broken[0]['exc']}) cfg={broken[0]['cfg']}")
        skipped = [t for t in traces if t.get("skipped")]
        live = [t for t in traces if not t.get("skipped")]
        slim = [{k: v for k, v in t.items() if k != "cfg"} for t in live]
        rej, acc, res = tracecheck.validate("Trace_Rar", TRACE_CFG % pid, slim, sc, "tr" + pid)
        viol = []
        for r in rej:
            t = live[r["tid"]]
            viol.append(dict(clause=r["clause"], sig=sig_of(t["cfg"], r["clause"]), detail=f"event {r['ev']}",
                             driver="harness.drv_rar:run_case", cfg=t["cfg"], record=t))
        for t in raised:
            viol.append(dict(clause="RefinementRaised", sig=dict(sig_of(t["cfg"], ""), exc=t["codeexc"].split(":")[0]), detail=t["codeexc"],
                             driver="harness.drv_rar:run_case", cfg=t["cfg"], record=t))
        rc, n_new, n_known = core.report(pid, viol)
        import copy
        badt = {r["tid"] for r in rej}
        st_recs = []
        base = next((t for k, t in enumerate(slim) if k not in badt and any(e["stepped"] and e["hooked"] for e in t["ev"]) and len(t["axes"]) == 1), None)
        if base is not None:
            k = next(i for i, e in enumerate(base["ev"]) if e["stepped"] and e["hooked"])
            if pid == "C17":
                c = copy.deepcopy(base); c["ev"][k]["hooked"] = False
                st_recs.append((c, "HookEventMissing", "hook H1 event removed from a refinement step"))
                c = copy.deepcopy(base); c["ev"][k]["after"][0]["order"][0] = 0
                st_recs.append((c, None, "an active point replaced during a refinement step"))
            else:
                c = copy.deepcopy(base); m = c["ev"][k]["after"][0]["mask"]; m[m.index(True)] = False
                st_recs.append((c, None, "one active slot reported inactive after a step"))
                c = copy.deepcopy(base); c["ev"][k]["stepped"] = False
                st_recs.append((c, None, "a refinement step reported as no step"))
        nself = tracecheck.selftest("Trace_Rar", TRACE_CFG % pid, st_recs, sc, "st" + pid)
        steps_seen = sum(1 for t in live for e in t["ev"] if e["stepped"])
        full_seen = sum(1 for t in live if t["ev"] and any(
            ax["nstart"] + (t["ev"][-1]["steps"] + 1) * ax["sel"] > ax["cap"] for ax in t["axes"]))
        if not steps_seen or not full_seen:
            raise core.MachineryError("vacuous: no refinement step / no capacity exhaustion observed")
        tstates = sum(r.distinct for r in res)
        cov = dict(
            states=states + tstates, transitions=trans + sum(r.generated for r in res), traces_validated_against_impl=acc,
            samples=[core.clip(dict(cfg=t["cfg"], events=t["ev"][:3]), 1800) for t in live[:: max(1, len(live) // 2)][:2]],
            exhaustive=True, model_checking=mc_info, traces_total=len(traces), traces_skipped=len(skipped),
            trace_events=sum(len(t["ev"]) for t in live), refinement_steps_observed=steps_seen, traces_reaching_capacity=full_seen,
            traces_through_solve=sum(1 for t in live if t["cfg"].get("mode") == "solve"), traces_rejected=len(rej),
            traces_from_repo_tests=sum(1 for t in live if t["cfg"].get("src") == "repo_tests"), repo_tests_pytest=repo_line,
            known_finding_hits=n_known, binding_selftests_rejected=nself, apalache_inductive_obligations_discharged=n_apa, rule=rule)
        core.write_evidence(pid, tier, seed, "model_checking", cov, assumptions, time.time() - t0, n_new)
        print(f"{pid} [{tier}] MC states={states} traces={len(live)} accepted={acc} rejected={len(rej)} (new={n_new} known={n_known}) "
              f"steps={steps_seen} full={full_seen} wall={time.time() - t0:.0f}s")
        return rc
    finally:
        sc.cleanup()
