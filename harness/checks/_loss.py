"""Helpers shared by the loss-term checks (C03 C04 C05 C12): structural emission + expansion."""
from __future__ import annotations

import random

from .. import lossrec

MC = """CONSTANTS Family = "%s"
MaxB = %d
SPECIFICATION Spec
INVARIANT Emit
"""


def prepare(budget, always=lambda s: False):
    """always: structures (rare kinds) that are kept whatever the budget"""
    def f(structs, seed):
        rng = random.Random(7 * seed + 1)
        idx = list(range(len(structs)))
        if budget and len(idx) > budget:
            # keep twin groups together: select by group key
            groups = {}
            for k, s in enumerate(structs):
                groups.setdefault(lossrec._key(s, drop=("twin", "call")), []).append(k)
            keys = sorted(groups)
            rng.shuffle(keys)
            keys.sort(key=lambda g: not any(always(structs[k]) for k in groups[g]))     # stable: the rare kinds first
            idx = []
            for g in keys:
                if len(idx) >= budget:
                    break
                idx += groups[g]
        return [lossrec.expand(structs[k], seed) for k in sorted(idx)]
    return f


def sig(r):
    s = dict(r.get("struct", {}))
    out = {k: (v if isinstance(v, (int, str, bool)) else str(v)) for k, v in s.items()}
    out["lkind"] = r["lkind"]
    out["dim"] = r["dim"]
    if r.get("exc"):
        out["exc_type"] = r["exc"].split(":")[0]
    return out


def prepare_filtered(spinn_terms, budget, always=lambda s: False):
    """like prepare(), keeping from the separable-network family (C11L) only the given terms"""
    inner = prepare(budget, always)

    def f(structs, seed):
        keep = [s for s in structs if s.get("family") != "C11L" or s.get("term") in spinn_terms]
        # from the parameter family (C12) only the structures with an observation batch carrying observed equation parameters
        # ... or heterogeneous parameters (the residual must be evaluated with the user's maps applied to the caller's parameters)
        keep = [s for s in keep if s.get("family") != "C12" or s.get("obsk") or s.get("hetero") != "none"]
        sp = [s for s in keep if s.get("family") in ("C11L", "C12")]           # outside the budget
        rest = [s for s in keep if s.get("family") not in ("C11L", "C12")]
        return inner(rest, seed) + [lossrec.expand(s, seed) for s in sp]
    return f
