"""C20 - loss evaluation and batch drawing are pure and compilation-invariant."""
from __future__ import annotations

import json
import random
import time

from .. import core, tracecheck

MC = """CONSTANTS Losses = {%s}
Variants = {"plain", "param", "obs", "both"}
Modes = {"eager", "jit", "jitarg", "vg"}
Gens = {%s}
MaxLen = %d
Impure = %s
EmitScenarios = %s
SPECIFICATION Spec
PROPERTY ArgsUnchanged
INVARIANT MemoCoversCalls
INVARIANT Emit
"""
TRACE_CFG = """SPECIFICATION Spec
INVARIANT Report
INVARIANT Done
POSTCONDITION Summary
CHECK_DEADLOCK FALSE
"""
LOSSES = ["ode", "statio", "nonstatio", "sysode", "syspde", "syspdestatio", "mlp"]
GENS = ["odegen", "statio2d", "statio1d", "nonstatio", "obsgen", "paramgen", "multiobs", "paramgen2"]
q = lambda xs: ", ".join(f'"{x}"' for x in xs)


def run(tier, seed):
    t0 = time.time()
    quick = tier == "quick"
    sc = core.Scratch("C20")
    rng = random.Random(31 * seed + 7)
    try:
        core.repo_is_importable()
        # (M) all call orders over the whole universe (no emission), and the impure witness
        r_mc = core.run_tlc("Purity", MC % (q(LOSSES[:4]), q(GENS[:2]), 3, "FALSE", "FALSE"), sc, workers=core.NCPU, tag="MC_Purity", timeout=1800, coverage=True)
        core.tlc_must_pass(r_mc, "MC_Purity")
        r_w = core.run_tlc("Purity", MC % (q(["syspde"]), q(["odegen"]), 2, "TRUE", "FALSE"), sc, workers=2, tag="MC_Purity_witness")
        core.tlc_must_fail(r_w, "MC_Purity_witness", "ArgsUnchanged")
        # (R) scenarios: for every loss, all call orders of length L over its variants x modes (+ one generator)
        L = 3 if quick else 4
        scen = []
        emitted = 0
        for k, lname in enumerate(LOSSES):
            g = GENS[k % len(GENS)]
            r = core.run_tlc("Purity", MC % (q([lname]), q([g]), L, "FALSE", "TRUE"), sc, workers=1, tag=f"Emit_Purity_{lname}", timeout=1800)
            core.tlc_must_pass(r, f"Emit_{lname}")
            s = [p for p in r.prints if isinstance(p, dict) and p.get("kind") == "purity"]
            emitted += len(s)
            rng.shuffle(s)
            scen += s[: (60 if quick else 600)]
        # sequences over TWO losses with per-facet boundary dictionaries of different dimension (evaluation order across objects)
        r = core.run_tlc("Purity", MC % (q(["bnd1d", "bnd2d"]), q([GENS[0]]), 3, "FALSE", "TRUE"), sc, workers=1, tag="Emit_Purity_bnd", timeout=1800)
        core.tlc_must_pass(r, "Emit_bnd")
        s = [p for p in r.prints if isinstance(p, dict) and p.get("kind") == "purity"
             and {c.get("l") for c in p["calls"] if c["kind"] == "eval"} == {"bnd1d", "bnd2d"}]
        emitted += len(s)
        rng.shuffle(s)
        scen += s[: (40 if quick else 400)]
        # generator-only sequences, every generator kind
        for g in GENS:
            for rep in range(4 if quick else 12):
                calls, nst = [], 1
                for j in range(6):
                    k = rng.randrange(nst)
                    calls.append(dict(kind="draw", g=g, k=k, m=(["eager", "jit"][(rep + j) % 2] if j < 2 else rng.choice(["eager", "jit"]))))
                    if k == nst - 1:
                        nst += 1
                scen.append(dict(kind="purity", calls=calls))
        for s in scen:
            s["seed"] = seed
        # generator-only sequences run in the default 32-bit mode (what users run; int32 cursor arithmetic under jit),
        # sequences with loss evaluations under x64 (exact arithmetic makes eager / jit / value-and-grad bitwise comparable)
        gen_only = [s for s in scen if all(c["kind"] == "draw" for c in s["calls"])]
        mixed = [s for s in scen if not all(c["kind"] == "draw" for c in s["calls"])]
        out = core.run_drivers("harness.drv_purity:run_case", mixed, x64=True) + \
            core.run_drivers("harness.drv_purity:run_case", gen_only, x64=False)
        crashed = [t for t in out if "tb" in t]
        if crashed:
            raise core.MachineryError("driver crashed: " + crashed[0]["tb"])
        slim = [dict(ev=t["ev"]) for t in out]
        rej, acc, res = tracecheck.validate("Trace_Purity", TRACE_CFG, slim, sc, "trC20")
        viol = []
        for x in rej:
            t = out[x["tid"]]
            e = t["ev"][x["ev"] - 1] if 0 < x["ev"] <= len(t["ev"]) else {}
            sig = dict(kind=e.get("kind", ""), loss=e.get("l", ""), variant=e.get("b", ""), mode=e.get("m", ""), gen=e.get("g", ""))
            viol.append(dict(clause=x["clause"], sig=sig, detail=f"event {x['ev']} {e.get('exc', '')}", driver="harness.drv_purity:run_case", cfg=t["sc"], record=t))
        import copy
        badt = {x["tid"] for x in rej}
        st_recs = []
        base = next((t for k, t in enumerate(slim) if k not in badt and t["ev"] and t["ev"][0]["kind"] == "eval"), None)
        if base is not None:
            c = copy.deepcopy(base); c["ev"][0]["after"][1] = 99999
            st_recs.append((c, "ArgumentMutated", "fingerprint of the parameters changed by an evaluation"))
        base = next((t for k, t in enumerate(slim) if k not in badt and len(t["ev"]) >= 2 and all(e["kind"] == "draw" for e in t["ev"])
                     and t["ev"][0]["before"] == t["ev"][1]["before"]), None)
        if base is not None:
            c = copy.deepcopy(base); c["ev"][1]["res"] = 99999
            st_recs.append((c, "DrawNotFunctional", "two draws from the same generator state with different results"))
        nself = tracecheck.selftest("Trace_Purity", TRACE_CFG, st_recs, sc, "stC20")
        rc, n_new, n_known = core.report("C20", viol)
        nev = sum(len(t["ev"]) for t in out)
        cross = sum(1 for t in out if len({(e["l"], e["b"], e["m"]) for e in t["ev"] if e["kind"] == "eval"}) > len({(e["l"], e["b"]) for e in t["ev"] if e["kind"] == "eval"}))
        cov = dict(states=r_mc.distinct + sum(r.distinct for r in res), transitions=r_mc.generated + sum(r.generated for r in res),
                   traces_validated_against_impl=acc, samples=[core.clip(t, 1500) for t in out[:: max(1, len(out) // 2)][:2]], exhaustive=False,
                   scenarios_emitted_by_tlc=emitted, scenarios_replayed=len(out), events=nev, sequences_mixing_modes_on_same_arguments=cross,
                   records_rejected=len(rej), known_finding_hits=n_known, binding_selftests_rejected=nself,
                   rule="MC: Purity.tla all call orders (length <= 3) over losses x batch variants x modes x generator states, ArgsUnchanged; "
                        "witness Impure=TRUE must violate it; replay: for each loss (ODE, stationary, non-stationary, ODE system, stationary and "
                        "non-stationary PDE systems, tanh MLP, and a pair of 1-D / 2-D losses with per-facet boundary dictionaries) all orders of length L over {plain, parameter batch, observation batch} x "
                        "{eager, jit closing over the loss, jit with the loss as an argument, value-and-grad} + draws, sampled by VERIF_SEED; every generator kind drawn eagerly and under jit from "
                        "fresh and re-used states; fingerprints = structure + array bytes + user dictionaries")
        core.write_evidence("C20", tier, seed, "model_checking", cov,
                            ["bitwise comparison across eager/jit/value-and-grad only on exact-arithmetic (polynomial, x64) problems; the tanh MLP problem is "
                             "checked for argument immutability and repeatability within a mode",
                             "fingerprint = sha1(pytree structure, array dtype/shape/bytes, keys and content of nested user dictionaries)"],
                            time.time() - t0, n_new)
        print(f"C20 [{tier}] MC states={r_mc.distinct} emitted={emitted} replayed={len(out)} events={nev} accepted={acc} rejected={len(rej)} (new={n_new} known={n_known}) wall={time.time() - t0:.0f}s")
        return rc
    finally:
        sc.cleanup()
