"""Shared flow of the data-generator checks (C08 C09 C14 C15):
   model-check the design (TLC, exhaustive small scope)  ->  drive the real generators over an
   enumerated family of configurations/histories  ->  validate every trace with the monitor."""
from __future__ import annotations

import json
import time

from .. import core, tracecheck

TRACE_CFG = """CONSTANT Prop = "%s"
SPECIFICATION Spec
INVARIANT Report
INVARIANT Done
POSTCONDITION Summary
CHECK_DEADLOCK FALSE
"""


def sig_of(cfg, clause):
    s = {k: v for k, v in cfg.items() if isinstance(v, (int, str, bool)) and k not in ("seed", "draws")}
    for k in ("keys", "nets", "box", "boxy"):
        if k in cfg:
            s[k] = json.dumps(cfg[k])
    if "n" in cfg and "b" in cfg:
        s["b_divides_n"] = cfg["n"] % cfg["b"] == 0
    return s


def selftests(pid, live, rej, sc):
    """corrupt one logged field of an accepted trace: the monitor must reject it"""
    import copy

    bad = {r["tid"] for r in rej}
    good = [t for k, t in enumerate(live) if k not in bad and len(t["ev"]) >= 3 and not t.get("exc")]
    if not good:
        return 0
    slim = lambda t: {k: v for k, v in t.items() if k != "cfg"}
    out = []
    if pid in ("C09", "C08"):
        t = next((x for x in good if x["kind"] == "ode" and x["stores"][0]["b"] < len(x["stores"][0]["init"])), None)
        if t is not None:
            c = copy.deepcopy(slim(t))
            c["ev"][1]["st"][0]["bt"] = list(reversed(c["ev"][1]["st"][0]["bt"])) if len(set(c["ev"][1]["st"][0]["bt"])) > 1 else [0] * len(c["ev"][1]["st"][0]["bt"])
            out.append((c, "BatchNotSliceOfStore" if len(set(t["ev"][1]["st"][0]["bt"])) > 1 else None, "batch rows permuted / replaced"))
            c = copy.deepcopy(slim(t))
            c["ev"][1]["st"][0]["order"][0] = 0
            out.append((c, "StoreNotPermutation", "a stored point replaced by an unknown value"))
        if pid == "C09":
            t2 = next((x for x in good if x["kind"] == "ode" and len(x["ev"]) >= 4 and len(x["stores"][0]["init"]) >= 3 * x["stores"][0]["b"]
                       and all(m for m in x["stores"][0]["mask"])), None)
            if t2 is not None:
                c = copy.deepcopy(slim(t2))
                del c["ev"][1]
                out.append((c, "ExpectedAdvance", "one get_batch event dropped"))
    if pid == "C14":
        t = next((x for x in good if x["kind"] == "nonstatio" and x["cart"] and len(x["ev"][0]["inside"]) >= 2), None)
        if t is not None:
            c = copy.deepcopy(slim(t))
            c["ev"][0]["inside"][0], c["ev"][0]["inside"][1] = c["ev"][0]["inside"][1], c["ev"][0]["inside"][0]
            out.append((c, None, "two rows of the space-time batch swapped"))
    if pid == "C15":
        t = next((x for x in good if x["kind"] == "obs" and len(x["ev"][0]["st"][0]["rows"][0]) >= 2), None)
        if t is not None:
            c = copy.deepcopy(slim(t))
            c["ev"][0]["st"][0]["rows"][0][1] = (c["ev"][0]["st"][0]["rows"][0][1] % len(c["stores"][0]["init"])) + 1 if len(c["stores"][0]["init"]) > 1 else 0
            out.append((c, "RowPartsMisaligned", "value of a batch row taken from another table row"))
    return tracecheck.selftest("Trace_DataGen", TRACE_CFG % pid, out, sc, "st" + pid)


def run(pid, tier, seed, *, mc, cfgs, assumptions, level="model_checking", rule="", extra_leg=None, apalache=None):
    """mc: list of dict(module, cfg, tag, expect='pass' | ('fail', needle), workers)"""
    t0 = time.time()
    sc = core.Scratch(pid)
    try:
        core.repo_is_importable()
        states = trans = 0
        mc_info = []
        for m in mc:
            r = core.run_tlc(m["module"], m["cfg"], sc, workers=m.get("workers", core.NCPU), tag=m["tag"],
                             coverage=m.get("coverage", m.get("expect", "pass") == "pass"), timeout=m.get("timeout", 1800))
            if m.get("expect", "pass") == "pass":
                core.tlc_must_pass(r, m["tag"])
                states += r.distinct
                trans += r.generated
            else:
                core.tlc_must_fail(r, m["tag"], m["expect"][1])
            mc_info.append(dict(run=m["tag"], module=m["module"], distinct=r.distinct, generated=r.generated,
                                depth=r.depth, expect=m.get("expect", "pass"), errors=r.errors[:2], wall_s=round(r.wall, 1),
                                actions_taken={a: v[1] for a, v in r.coverage.items() if a != "Init"}))
        n_apa = core.run_apalache(apalache[0], apalache[1], sc) if apalache else 0
        traces = core.run_drivers("harness.drv_datagen:run_case", cfgs)
        crashed = [t for t in traces if "tb" in t]
        if crashed:
            raise core.MachineryError("driver crashed: " + crashed[0]["tb"])
        skipped = [t for t in traces if t.get("skipped")]
        live = [t for t in traces if not t.get("skipped")]
        slim = [{k: v for k, v in t.items() if k != "cfg"} for t in live]  # TLC cannot read JSON null
        rej, acc, res = tracecheck.validate("Trace_DataGen", TRACE_CFG % pid, slim, sc, "tr" + pid)
        tstates = sum(r.distinct for r in res)
        viol = []
        for r in rej:
            t = live[r["tid"]]
            viol.append(dict(clause=r["clause"], sig=sig_of(t["cfg"], r["clause"]), detail=f"event {r['ev']}" +
                             (f" exc={t['exc']}" if t.get("exc") else ""), driver="harness.drv_datagen:run_case",
                             cfg=t["cfg"], record=t))
        leg_stats = {}
        if extra_leg is not None:
            v2, leg_stats = extra_leg(tier, seed)
            viol += v2
        rc, n_new, n_known = core.report(pid, viol)
        nself = selftests(pid, live, rej, sc)
        events = sum(len(t["ev"]) for t in live)
        clauses = {}
        for v in viol:
            clauses[v["clause"]] = clauses.get(v["clause"], 0) + 1
        kinds = {}
        for t in live:
            kinds[t["kind"]] = kinds.get(t["kind"], 0) + 1
        sample = [core.clip(dict(cfg=t["cfg"], stores=[dict(name=s["name"], init=s["init"]) for s in t["stores"]],
                                 first_events=t["ev"][:2]), 1500) for t in live[:: max(1, len(live) // 3)][:3]]
        cov = dict(
            states=states + tstates,
            transitions=trans + sum(r.generated for r in res),
            traces_validated_against_impl=acc,
            samples=sample,
            exhaustive=True,
            model_checking=mc_info,
            monitor_states=tstates,
            traces_total=len(traces),
            traces_skipped_duplicate_floats=len(skipped),
            trace_events=events,
            traces_rejected=len(rej),
            rejected_by_clause=clauses,
            traces_by_kind=kinds,
            known_finding_hits=n_known,
            binding_selftests_rejected=nself, apalache_inductive_obligations_discharged=n_apa,
            rule=rule, **leg_stats,
        )
        core.write_evidence(pid, tier, seed, level, cov, assumptions, time.time() - t0, n_new)
        print(f"{pid} [{tier}] MC states={states} traces={len(live)} accepted={acc} rejected={len(rej)} "
              f"(new={n_new} known={n_known}) events={events} wall={time.time() - t0:.0f}s")
        return rc
    finally:
        sc.cleanup()
