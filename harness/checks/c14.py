"""C14 - space-time batches are exact cartesian products (or exact pairings)."""
from __future__ import annotations

from . import _dg
from .c09 import draws

MC_CFG = """CONSTANTS MaxN = %d
MaxDraws = %d
SPECIFICATION Spec
INVARIANT ProductExact
INVARIANT PairingExact
INVARIANT RowCounts
"""


def cases(tier, seed):
    out = []
    B = 3 if tier == "quick" else 4
    sd = 104729 * seed
    for bt in range(1, B + 1):
        for bx in range(1, B + 1):
            for bb in range(1, B + 1):
                k = sd + 100 * bt + 10 * bx + bb
                nt, n, nbf = bt + 1 + (bx % 2), bx + 2, bb + (bt % 2)
                d = max(draws(nt, bt), draws(n, bx), draws(nbf, bb))
                out.append(dict(kind="nonstatio", dim=2, n=n, b=bx, nb=4 * nbf, bb=bb, nt=nt, bt=bt, seed=k, draws=d))
                if bb == 1:
                    out.append(dict(kind="nonstatio", dim=1, n=n, b=bx, nb=2, bb=2, nt=nt, bt=bt, seed=k, draws=d,
                                    box=[-1.0, 2.0], tbox=[0.0, 3.0]))
                    out.append(dict(kind="nonstatio", dim=2, n=n, b=bx, nb=None, bb=None, nt=nt, bt=bt, seed=k, draws=d))
        # pairings: all batch sizes equal (the constructor requires it)
        nt, n = bt + 2, bt + 1
        out.append(dict(kind="nonstatio", dim=2, n=n, b=bt, nb=4 * (bt + 1), bb=bt, nt=nt, bt=bt, cart=False, seed=sd + bt,
                        draws=draws(n, bt) + 2))
        out.append(dict(kind="nonstatio", dim=1, n=n, b=bt, nb=2, bb=2, nt=nt, bt=bt, cart=False, seed=sd + bt,
                        draws=draws(n, bt) + 2))
        out.append(dict(kind="nonstatio", dim=2, n=n, b=bt, nb=None, bb=None, nt=nt, bt=bt, cart=False, seed=sd + bt,
                        draws=draws(n, bt) + 2))
    # the product / pairing flag given as a numpy bool or an integer (what a configuration file or an array comparison yields)
    for j, (cart, form) in enumerate(((False, "np"), (False, "int"), (True, "np"), (True, "int"))):
        bt = 2
        out.append(dict(kind="nonstatio", dim=2, n=3, b=bt, nb=12, bb=bt, nt=4, bt=bt, cart=cart, cartform=form, seed=sd + 50 + j, draws=4))
        out.append(dict(kind="nonstatio", dim=1, n=3, b=bt, nb=2, bb=2, nt=4, bt=bt, cart=cart, cartform=form, seed=sd + 60 + j, draws=4))
    return out


def run(tier, seed):
    mc = [dict(module="DataGen", tag="MC_DataGen", cfg=MC_CFG % ((2, 4) if tier == "quick" else (3, 3)), timeout=3000)]
    return _dg.run(
        "C14", tier, seed, mc=mc, cfgs=cases(tier, seed),
        rule="MC: DataGen.tla three independent stores, all permutations, products/pairings exact and time-major; traces: all "
             "temporal/spatial/border batch sizes <= B, dim 1 and 2, both product modes, with/without border, across reshuffles; "
             "each row is decoded to (time id, point id) and compared with the product of the sub-batches the new generator "
             "state dictates; distinct = distinct cfg",
        assumptions=[
            "stored values are identified by exact bytes (column 0 through the time registry, the other columns through the "
            "interior / per-facet border registries), so swapped or mixed columns decode to the unknown id 0",
            "PRNG keys are sampled",
        ],
    )
