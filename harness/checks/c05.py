"""C05 - initial-condition, normalisation and observation terms match their definitions."""
from . import _func, _loss


def run(tier, seed):
    q = tier == "quick"
    return _func.run(
        "C05", tier, seed, emitters=[("MC_Loss", _loss.MC % ("C11L", 8), "MC_Loss_C05_spinn"), ("MC_Loss", _loss.MC % ("C12", 8), "MC_Loss_C05_obsparams"), ("MC_Loss", _loss.MC % ("C05", 4 if q else 8), "MC_Loss_C05")], extras=lambda s: [],
        prepare=_loss.prepare_filtered(('ic', 'norm'), 0), sig=_loss.sig,
        rule="TLC enumerates loss kind x term (initial condition / normalisation / observations) x outputs 1..3 x batch sizes x sample "
             "counts 2,4,8 x volumes 1,2,4 x scalar/per-component weights x output slices x observed equation parameters entering u "
             "through its output transform x cartesian/paired batches; normalisation networks are non-constant over the samples; "
             "expected = LossSemantics!IC / Norm / Obs; + the structures of the parameter family (C12) with an observed parameter, including a key "
             "that is BOTH generated (parameter batch) and observed: the observed row wins; distinct = distinct structure",
        assumptions=["polynomial networks (exact under x64); normalisation of a solution slice with one or two components (mean over samples and components); scalar weights for the ODE "
                     "initial condition and the normalisation"])
