"""C13 - a system loss is the weighted composition of its equations and unknowns."""
from . import _func, _loss


def extras(tier):
    def gen(seed):
        out = []
        for lk in ("ode", "statio", "nonstatio"):
            for net in ("pinn", "hyper"):
                for pb in (False, True):
                    for j in range(1 if tier == "quick" else 4):
                        out.append(dict(kind="sysplain", lkind=lk, net=net, pbatch=pb, seed=10 * seed + j, src="sysplain"))
        # a MIXED system (stationary unknown + non-stationary unknown with an initial condition), the stationary key sorting first / last
        for net in ("kfirst", "klast"):
            for j in range(2 if tier == "quick" else 6):
                out.append(dict(kind="sysplain", lkind="mixed", net=net, pbatch=False, seed=10 * seed + j, src="sysmixed"))
        return out
    return gen


def sig(r):
    if r.get("kind") == "sysplain":
        return dict(kind="sysplain", lkind=r["lkind"], net=r["net"], pbatch=r["pbatch"], exc=(r.get("exc") or "").split(":")[0])
    return _loss.sig(r)


def run(tier, seed):
    q = tier == "quick"
    return _func.run(
        "C13", tier, seed, emitters=[("MC_Loss", _loss.MC % ("C13", 8), "MC_Loss_C13")], extras=extras(tier),
        prepare=_loss.prepare(900 if q else 0), sig=sig,
        rule="TLC enumerates ODE / stationary / non-stationary systems x 1..3 equations x 1..3 unknowns x key naming (equal, different, "
             "overlapping) x scalar / per-key dict weights x initial-condition and observation patterns per unknown (none, first, all) x "
             "boundary conditions x parameter batch; equations are asymmetric in t and x and involve every unknown; expected = "
             "LossSemantics!SysTerms; the 1x1 system = plain loss is a lemma checked on the records; + the same clause on REAL networks (MLP PINN and "
             "hyper-network PINN with float weights, ODE / stationary / non-stationary, with and without a parameter batch): the one-equation "
             "one-unknown system and the plain loss built from the same pieces are compared with each other; distinct = distinct structure",
        assumptions=["polynomial one-output networks and polynomial equations (exact under x64); scalar weights per equation / unknown"])
