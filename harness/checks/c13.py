"""C13 - a system loss is the weighted composition of its equations and unknowns."""
from . import _func, _loss


def run(tier, seed):
    q = tier == "quick"
    return _func.run(
        "C13", tier, seed, emitters=[("MC_Loss", _loss.MC % ("C13", 8), "MC_Loss_C13")], extras=lambda s: [],
        prepare=_loss.prepare(900 if q else 0), sig=_loss.sig,
        rule="TLC enumerates ODE / stationary / non-stationary systems x 1..3 equations x 1..3 unknowns x key naming (equal, different, "
             "overlapping) x scalar / per-key dict weights x initial-condition and observation patterns per unknown (none, first, all) x "
             "boundary conditions x parameter batch; equations are asymmetric in t and x and involve every unknown; expected = "
             "LossSemantics!SysTerms; the 1x1 system = plain loss is a lemma checked on the records; distinct = distinct structure",
        assumptions=["polynomial one-output networks and polynomial equations (exact under x64); scalar weights per equation / unknown"])
