"""C04 - boundary term enforces Dirichlet / outward-normal Neumann conditions per facet."""
from . import _func, _loss


def run(tier, seed):
    q = tier == "quick"
    return _func.run(
        "C04", tier, seed, emitters=[("MC_Loss", _loss.MC % ("C11L", 8), "MC_Loss_C04_spinn"), ("MC_Loss", _loss.MC % ("C04", 8), "MC_Loss_C04")], extras=lambda s: [],
        prepare=_loss.prepare_filtered(('dirichlet', 'neumann'), 500 if q else 0), sig=_loss.sig,
        rule="TLC enumerates dim 1,2 x stationary/non-stationary x global / per-facet specification x EVERY assignment of {none, dirichlet, "
             "neumann} to the facets x zero / non-zero f x scalar / length-one-array return x outputs and component selection x border "
             "batch sizes x 1..2 time points; networks have normal derivatives of different sign and size on every facet; expected value "
             "= LossSemantics!Bnd with outward normals and facet order xmin, xmax, ymin, ymax; distinct = distinct structure",
        assumptions=["polynomial networks (exact under x64); Neumann for a single selected component; scalar boundary weight"])
