"""C17 - refinement adds the highest-residual candidates and keeps active points."""
from . import _rar


def run(tier, seed):
    return _rar.run(
        "C17", tier, seed,
        rule="MC: RarStore.tla (contents, all reshuffles, every top set), Rar.tla (windows vs active slots, time/space offsets); traces: "
             "candidates from hook H1, ranks of their squared residual recomputed by the driver from the crafted landscape "
             "(monotone / peaked / decreasing, scalar and vector residuals), stores before/after every draw and step; clauses "
             "ActiveSlotOverwritten/WroteOutsideWindow/AddedNotCandidates/AddedNotTopResidual/Added*NotTopPairs/"
             "CandidateOutsideDomain/ActivePointDropped/AddedPointsNotActive + reshuffle conformance; distinct = distinct cfg",
        assumptions=["candidate points are reported by the guarded hook H1 (JINNS_VERIF=1); their residual ranking is recomputed "
                     "independently; near-ties (relative gap < 1e-4) share a rank (single axis) or skip the trace (pairs)",
                     "points identified by exact bytes; PRNG sampled"])
