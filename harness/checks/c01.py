"""C01 - differential operators return the mathematical operator's value."""
from __future__ import annotations

import random

from . import _func

MC = """CONSTANTS MaxDim = %d
MaxDeg = 3
NPts = %d
SPECIFICATION Spec
INVARIANT Emit
INVARIANT DivGradIsLap
INVARIANT LapIgnoresTime
"""


def rand_poly(rng, nv, nterms, deg=3, cmax=3):
    out = []
    for _ in range(nterms):
        e = [0] * nv
        for _d in range(rng.randint(0, deg)):
            e[rng.randrange(nv)] += 1
        out.append(dict(c=rng.choice([c for c in range(-cmax, cmax + 1) if c]), e=e))
    return out


def extras(tier):
    def gen(seed):
        rng = random.Random(9176 * seed + 5)
        recs = []
        n = 60 if tier == "quick" else 600
        for k in range(n):
            dim = 1 + k % 4
            withT = bool((k // 4) % 2)
            op = ["lap", "div", "veclap", "adv"][(k // 8) % 4]
            if op == "adv":
                dim = 2
            nv = dim + (1 if withT else 0)
            nout = 1 if op == "lap" else dim
            deg = 2 if op == "adv" else 3
            fields = [rand_poly(rng, nv, rng.randint(1, 4), deg) for _ in range(nout)]
            pts = [[rng.randint(0, 2) if (withT and i == 0) else rng.randint(-2, 2) for i in range(nv)] for _ in range(4)]
            recs.append(dict(kind="operator", op=op, dim=dim, withT=withT, fields=fields, pts=pts, junk=rng.randint(-3, 9), src="random"))
        return recs
    return gen


FWD_OPS = ("lap", "div", "veclap", "veclapdef", "adv")


def prepare(structs, seed):
    """operator configurations are complete as emitted; the forward-mode structures (MC_FwdRev, operators only) are instantiated"""
    from .. import lossrec

    out = []
    for s in structs:
        if s.get("kind") == "operator":
            out.append(s)
        elif s.get("op") in FWD_OPS:
            out.append(lossrec.expand_fr(s, seed))
    return out


def sig(r):
    if "struct" in r:
        return dict({k: (v if isinstance(v, (int, str, bool)) else str(v)) for k, v in r["struct"].items()}, src="fwd")
    return dict(op=r["op"], dim=r["dim"], withT=r["withT"], src=r["src"])


def run(tier, seed):
    q = tier == "quick"
    return _func.run(
        "C01", tier, seed, emitters=[("MC_Operators", MC % ((4, 2) if q else (4, 5)), "MC_Operators"),
                                      ("MC_FwdRev", "CONSTANT Sel = \"operators\"\nSPECIFICATION Spec\nINVARIANT Emit\n", "MC_FwdRev_operators")],
        extras=extras(tier), sig=sig, prepare=prepare, thorough_reps=1,
        rule="TLC enumerates dim 1..4 x time? x {laplacian, divergence, vector laplacian, advection (2-D)} x every monomial of total "
             "degree <= 3 in (t, x) placed in each output component over a time-dependent background field x unrelated parameter "
             "value, evaluated at lattice points; + seeded random integer polynomial fields; the oracle differentiates w.r.t. the "
             "spatial variables only; + the forward-mode (separable network) implementations of the same operators on polynomial SPINNs, "
             "dimensions 1..3, batches per axis 1..3 including batches smaller than the dimension (structures of MC_FwdRev, operators only); "
             "distinct = distinct configuration",
        assumptions=["polynomial integer fields only (exact under x64); transcendental fields and JAX's AD rules for them are trusted",
                     "the reverse-mode operators are called exactly as the built-in equations call them (PINN wrapper around a polynomial module)"])
