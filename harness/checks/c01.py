"""C01 - differential operators return the mathematical operator's value."""
from __future__ import annotations

import random

from . import _func

MC = """CONSTANTS MaxDim = %d
MaxDeg = 3
NPts = %d
SPECIFICATION Spec
INVARIANT Emit
INVARIANT DivGradIsLap
INVARIANT LapIgnoresTime
"""


def rand_poly(rng, nv, nterms, deg=3, cmax=3):
    out = []
    for _ in range(nterms):
        e = [0] * nv
        for _d in range(rng.randint(0, deg)):
            e[rng.randrange(nv)] += 1
        out.append(dict(c=rng.choice([c for c in range(-cmax, cmax + 1) if c]), e=e))
    return out


def extras(tier):
    def gen(seed):
        rng = random.Random(9176 * seed + 5)
        recs = []
        n = 60 if tier == "quick" else 600
        for k in range(n):
            dim = 1 + k % 4
            withT = bool((k // 4) % 2)
            op = ["lap", "div", "veclap", "adv"][(k // 8) % 4]
            if op == "adv":
                dim = 2
            nv = dim + (1 if withT else 0)
            nout = 1 if op == "lap" else dim
            deg = 2 if op == "adv" else 3
            fields = [rand_poly(rng, nv, rng.randint(1, 4), deg) for _ in range(nout)]
            pts = [[rng.randint(0, 2) if (withT and i == 0) else rng.randint(-2, 2) for i in range(nv)] for _ in range(4)]
            recs.append(dict(kind="operator", op=op, dim=dim, withT=withT, fields=fields, pts=pts, junk=rng.randint(-3, 9), src="random"))
        return recs
    return gen


def sig(r):
    return dict(op=r["op"], dim=r["dim"], withT=r["withT"], src=r["src"])


def run(tier, seed):
    q = tier == "quick"
    return _func.run(
        "C01", tier, seed, emitters=[("MC_Operators", MC % ((3, 3) if q else (4, 5)), "MC_Operators")], extras=extras(tier), sig=sig,
        rule="TLC enumerates dim 1..4 x time? x {laplacian, divergence, vector laplacian, advection (2-D)} x every monomial of total "
             "degree <= 3 in (t, x) placed in each output component over a time-dependent background field x unrelated parameter "
             "value, evaluated at lattice points; + seeded random integer polynomial fields; the oracle differentiates w.r.t. the "
             "spatial variables only; distinct = distinct configuration",
        assumptions=["polynomial integer fields only (exact under x64); transcendental fields and JAX's AD rules for them are trusted",
                     "the reverse-mode operators are called exactly as the built-in equations call them (PINN wrapper around a polynomial module)"])
