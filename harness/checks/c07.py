"""C07 - solve() is observationally the textbook mini-batch training loop."""
from . import _contracts, _solve


def base(n, **kw):
    C = dict(n=n, ce=0, vkind="none", script=[], vals=[], patience=0, earlyOn=False, fault=-1, origin="none", v0=0, o0=0, d0=0)
    C.update(kw)
    return C


def select(scen, rng, quick):
    pool = [s for s in scen if s["C"]["fault"] < 0 and (s["C"]["vkind"] == "none" or s["exp"]["iters"] == s["C"]["n"])]
    key = lambda s: (s["C"]["vkind"], s["C"]["n"], s["C"]["ce"])
    return _solve.stratified(pool, key, 60 if quick else 400, rng)


def extra(rng, quick):
    cases = []
    k = 0
    # epoch wrap (12 iterations), every batching profile, every auxiliary-generator combination
    for o in _solve.OPTS:
        for aux in _solve.AUX:
            if o["b"] > 4 and aux in ("obs", "both"):
                continue
            k += 1
            if quick and k % 2:
                continue
            cases.append(dict(C=base(12 if k % 3 == 0 else 3 + k % 5), opt=dict(o, seed=rng.randrange(1000), tracked=_solve.TRACKED[k % 4], aux=aux)))
    # real optimizers: loop structure only (which entries are written, batches, step counters, returned generator)
    for oname in ("sgd", "adam", "chain"):
        for n in ((1, 3, 7) if quick else (1, 2, 3, 5, 7, 12)):
            k += 1
            o = dict(_solve.OPTS[k % len(_solve.OPTS)])
            cases.append(dict(C=base(n), opt=dict(o, seed=rng.randrange(1000), tracked="eq", aux="none", optimizer=oname)))
    # resumed runs: solve(n1) then solve(n2) fed with the returned parameters, optimizer state and generator
    for (n1, n2) in (((1, 3), (2, 2), (3, 4)) if quick else ((1, 3), (1, 1), (2, 2), (3, 4), (4, 1), (5, 6), (1, 7))):
        for oname in ("dec", "adam"):
            k += 1
            o = dict(_solve.OPTS[k % len(_solve.OPTS)])
            cases.append(dict(C=base(n2), opt=dict(o, seed=rng.randrange(1000), tracked="eq", aux="none", optimizer=oname), resume=n1))
    return cases


def run(tier, seed):
    return _solve.run(
        "C07", tier, seed, select=select, extra_cases=extra, needs=["resumed", "non_decoded_optimizers", "with_aux"], extra_leg=_contracts.leg(("solve",), 0),
        rule="MC: Solve.tla (RunsExactlyN, HistoryIsReferenceLoop, HistoryLengths, Terminates); replay: scenarios without stop/fault from "
             "TLC's emission + driver families: epoch wrap (12 iterations), batch sizes dividing / not dividing / equal to n, parameter and "
             "observation generators (their batches decoded from the loss terms), tracked-parameter specs, sgd/adam/chained-schedule "
             "optimizers (loop structure: entries written, batches, step counters, returned generator), resumed runs; the loss history "
             "decodes to (parameter version, batch ids) and is compared with the reference draw sequence obtained outside solve",
        assumptions=["tagged arithmetic (x64); for sgd/adam/chain only the structural part is compared (no version decoding)",
                     "the probe batch consumed before the loop is part of the specification (ProbeDraw)"])
