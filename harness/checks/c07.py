"""C07 - solve() is observationally the textbook mini-batch training loop."""
from . import _contracts, _solve


def base(n, **kw):
    C = dict(n=n, ce=0, vkind="none", script=[], vals=[], patience=0, earlyOn=False, fault=-1, origin="none", v0=0, o0=0, d0=0)
    C.update(kw)
    return C


def select(scen, rng, quick):
    pool = [s for s in scen if s["C"]["fault"] < 0 and (s["C"]["vkind"] == "none" or s["exp"]["iters"] == s["C"]["n"])]
    key = lambda s: (s["C"]["vkind"], s["C"]["n"], s["C"]["ce"])
    return _solve.stratified(pool, key, 60 if quick else 400, rng)


def extra(rng, quick):
    cases = []
    k = 0
    # epoch wrap (12 iterations), every batching profile, every auxiliary-generator combination
    for o in _solve.OPTS:
        for aux in _solve.AUX:
            if o["b"] > 4 and aux in ("obs", "both"):
                continue
            k += 1
            if quick and k % 2:
                continue
            oo = _solve.set_lkind(dict(o, seed=rng.randrange(1000), tracked=_solve.TRACKED[k % 4], aux=aux, shard=bool(aux in ("obs", "both") and k % 2)),
                                  ["ode", "statio", "nonstatio"][(k // 2) % 3], k)
            cases.append(dict(C=base(12 if k % 3 == 0 else 3 + k % 5), opt=oo))
    # real optimizers: loop structure only (which entries are written, batches, step counters, returned generator)
    for oname in ("sgd", "adam", "chain"):
        for n in ((1, 3, 7) if quick else (1, 2, 3, 5, 7, 12)):
            k += 1
            o = dict(_solve.OPTS[k % len(_solve.OPTS)])
            cases.append(dict(C=base(n), opt=dict(o, seed=rng.randrange(1000), tracked="eq", aux="none", optimizer=oname)))
    # resumed runs: solve(n1) then solve(n2) fed with the returned parameters, optimizer state and generator
    for (n1, n2) in (((1, 3), (2, 2), (3, 4)) if quick else ((1, 3), (1, 1), (2, 2), (3, 4), (4, 1), (5, 6), (1, 7))):
        for oname in ("dec", "adam"):
            k += 1
            o = dict(_solve.OPTS[k % len(_solve.OPTS)])
            cases.append(dict(C=base(n2), opt=dict(o, seed=rng.randrange(1000), tracked="eq", aux="none", optimizer=oname), resume=n1))
    return cases


def generator_leg(tier, seed):
    """every generator kind as advanced by solve (hook H2): the probe draw + one draw per iteration must be steps of Batching.tla"""
    from .. import core, tracecheck
    from . import _dg

    q = tier == "quick"
    cfgs = []
    k = 0
    for (n, b) in ((4, 2), (5, 2), (3, 3)) if q else ((4, 2), (5, 2), (3, 3), (6, 4), (8, 2), (5, 1)):
        for gk in ("ode", "statio", "nonstatio"):
            k += 1
            it = 3 * (-(-n // b)) + 1
            base = dict(kind="solvegen", gkind=gk, n=n, b=b, iters=it, seed=100 * seed + k)
            if gk == "ode":
                cfgs.append(base)
            elif gk == "statio":
                cfgs.append(dict(base, dim=1, nb=2, bb=2))
                cfgs.append(dict(base, dim=2, nb=4 * (n - 1 or 1), bb=min(b, n - 1 or 1)))
            else:
                cfgs.append(dict(base, dim=1, nb=None, bb=None, nt=n + 1, bt=b))
                cfgs.append(dict(base, dim=2, nb=4 * n, bb=b, nt=n, bt=b, cart=False))
    traces = core.run_drivers("harness.drv_datagen:run_case", cfgs)
    crashed = [t for t in traces if "tb" in t]
    if crashed:
        raise core.MachineryError("driver crashed: " + crashed[0]["tb"])
    hookless = [t for t in traces if t.get("exc", "").startswith("hook events")]
    if hookless:
        raise core.MachineryError("hook H2 events missing: " + hookless[0]["exc"])
    live = [t for t in traces if not t.get("skipped")]
    sc = core.Scratch("C07gen")
    try:
        slim = [{k: v for k, v in t.items() if k != "cfg"} for t in live]
        rej, acc, res = tracecheck.validate("Trace_DataGen", _dg.TRACE_CFG % "C09", slim, sc, "trC07gen")
        viol = []
        for r in rej:
            t = live[r["tid"]]
            viol.append(dict(clause="SolveAdvancesGenerator_" + r["clause"], sig=dict(leg="generator", **_dg.sig_of(t["cfg"], "")),
                             detail=f"event {r['ev']} {t.get('exc', '')}", driver="harness.drv_datagen:run_case", cfg=t["cfg"], record=t))
        return viol, dict(solve_generator_traces=len(live), solve_generator_traces_accepted=acc, solve_generator_events=sum(len(t["ev"]) for t in live))
    finally:
        sc.cleanup()


def both_legs(tier, seed):
    from .. import repotrace

    fut = repotrace.start(tier, rar=False)      # the repository's own solver tests, traced through hook H2 (background)
    v1, s1 = _contracts.leg(("solve",), 0)(tier, seed)
    v2, s2 = generator_leg(tier, seed)
    v3, s3 = repotrace.datagen_leg(fut)
    return v1 + v2 + v3, dict(s1, **s2, **s3)


def run(tier, seed):
    return _solve.run(
        "C07", tier, seed, select=select, extra_cases=extra, needs=["resumed", "non_decoded_optimizers", "with_aux", "sharded_loop", "pde_losses"], extra_leg=both_legs,
        rule="MC: Solve.tla (RunsExactlyN, HistoryIsReferenceLoop, HistoryLengths, Terminates); replay: scenarios without stop/fault from "
             "TLC's emission, realised as ODE / stationary-PDE (2-D) / non-stationary-PDE (cartesian time x space batches) training problems, "
             "+ driver families: epoch wrap (12 iterations), batch sizes dividing / not dividing / equal to n, parameter and "
             "observation generators (their batches decoded from the loss terms), tracked-parameter specs, sgd/adam/chained-schedule "
             "optimizers (loop structure: entries written, batches, step counters, returned generator), resumed runs; the loss history "
             "decodes to (parameter version, batch ids) and is compared with the reference draw sequence obtained outside solve; "
             "+ the repository's own solver tests (pinned selection; thorough: the other x32 solver tests too) run under hook H2: every "
             "solve call they make is validated against the Batching clauses (generator advanced once per iteration + probe draw)",
        assumptions=["tagged arithmetic (x64); for sgd/adam/chain only the structural part is compared (no version decoding)",
                     "the probe batch consumed before the loop is part of the specification (ProbeDraw)"])
