"""C08 - collocation points lie in the declared domain, with declared counts and shapes."""
from __future__ import annotations

from . import _contracts, _dg
from .c09 import MC_CFG, draws

BOXES = [[0.0, 1.0], [-1.0, 2.0], [-3.0, -1.0], [0.1, 0.7]]
MC_PROPS = """INVARIANT StoreIsPermutation
INVARIANT BatchFromStore
INVARIANT BatchInsideWindow
"""


def cases(tier, seed):
    out = []
    quick = tier == "quick"
    nkeys = 2 if quick else 8
    sd = 7919 * seed
    # (a) histories: every batch ever returned is made of stored points, declared shapes, facets
    for ki in range(nkeys):
        for bi, box in enumerate(BOXES):
            if quick and (ki + bi) % 2:
                continue
            for method in ("uniform", "grid"):
                k = sd + 100 * ki + bi
                for (n, b) in ((5, 2), (8, 3), (6, 6)):
                    out.append(dict(kind="ode", n=n, b=b, box=box, method=method, seed=k, draws=draws(n, b)))
                    out.append(dict(kind="statio", dim=1, n=n, b=b, nb=2, bb=2, box=box, method=method, seed=k, draws=draws(n, b)))
                    out.append(dict(kind="nonstatio", dim=1, n=n, b=b, nb=2, bb=2, nt=n + 1, bt=b, box=box, tbox=box,
                                    method=method, seed=k, draws=draws(n + 1, b)))
                for (n, b, nbf, bb) in ((4, 2, 3, 2), (9, 4, 2, 1), (16, 16, 4, 4)):
                    # rectangles: the second coordinate has its own (disjoint from the first) bounds in every other case
                    boxy = dict(boxy=BOXES[(bi + 2) % 4]) if (n + ki) % 2 == 0 else {}
                    out.append(dict(kind="statio", dim=2, n=n, b=b, nb=4 * nbf, bb=bb, box=box, method=method, seed=k,
                                    draws=max(draws(n, b), draws(nbf, bb)), **boxy))
                    out.append(dict(kind="nonstatio", dim=2, n=n, b=b, nb=4 * nbf, bb=bb, nt=5, bt=2, box=box, tbox=BOXES[(bi + 1) % 4],
                                    method=method, seed=k, draws=max(draws(n, b), draws(nbf, bb)), **boxy))
                    out.append(dict(kind="statio", dim=2, n=n, b=b, nb=None, bb=None, box=box, method=method, seed=k, draws=2))
                out.append(dict(kind="nonstatio", dim=2, n=4, b=2, nb=8, bb=2, nt=6, bt=2, cart=False, box=box, tbox=box,
                                method=method, seed=k, draws=5))
                out.append(dict(kind="nonstatio", dim=1, n=5, b=3, nb=2, bb=2, nt=4, bt=3, cart=False, box=box, tbox=box,
                                method=method, seed=k, draws=4))          # pairing in 1-D: b rows inside, the border still crossed with the times
    # (b) the count clause for grid sampling: the spacing is float arithmetic, n up to 128
    N = 64 if quick else 128
    for n in range(1, N + 1):
        box = BOXES[n % len(BOXES)]
        out.append(dict(kind="ode", n=n, b=1, box=box, method="grid", seed=sd + n, draws=1))
        for bx in (BOXES if (not quick or n >= 32) else ([BOXES[(n + 1) % 4]] if n % 2 else [])):
            out.append(dict(kind="statio", dim=1, n=n, b=1, nb=2, bb=2, box=bx, method="grid", seed=sd + n, draws=1))
        # the time grid: float spacing, every interval for every count (a count error may need a particular (tmin, tmax, nt))
        for tb in (BOXES if (not quick or n >= 32) else [BOXES[(n + 1) % 4]]):
            out.append(dict(kind="nonstatio", dim=1, n=3, b=1, nb=None, bb=None, nt=n, bt=1, box=box, tbox=tb,
                            method="grid", seed=sd + n, draws=1))
        for tb in (BOXES if (not quick or n >= 32) else []):
            out.append(dict(kind="ode", n=n, b=1, box=tb, method="grid", seed=sd + n, draws=1))
    for r in range(1, (8 if quick else 12)):
        for bi, box in enumerate(BOXES):
            if quick and (r + bi) % 2:
                continue
            out.append(dict(kind="statio", dim=2, n=r * r, b=1, nb=None, bb=None, box=box, method="grid", seed=sd + r, draws=1,
                            **(dict(boxy=BOXES[(bi + 1) % 4]) if r % 2 else {})))
    # (a') generators built with the refinement (RAR) option: the rows that are not yet active are stored points of the domain too
    # (a batch that does not divide the active count reaches into them)
    for bi, box in enumerate(BOXES):
        k = sd + 977 * bi
        for (n, ns, b) in ((7, 3, 2), (6, 4, 3)):
            out.append(dict(kind="ode", n=n, b=b, box=box, rar=True, nstart=ns, seed=k, draws=draws(ns, b) + 1))
            out.append(dict(kind="statio", dim=2, n=n, b=b, nb=None, bb=None, box=box, boxy=BOXES[(bi + 1) % 4], rar=True, nstart=ns, seed=k,
                            draws=draws(ns, b) + 1))
            out.append(dict(kind="nonstatio", dim=1, n=n, b=b, nb=None, bb=None, nt=n, bt=b, box=box, tbox=BOXES[(bi + 2) % 4], rar=True, nstart=ns,
                            ntstart=ns, seed=k, draws=draws(ns, b) + 1))
    # (c) uniform sampling, larger stores, many keys: closed box membership + counts
    for ki in range(nkeys * 2):
        for bi, box in enumerate(BOXES):
            out.append(dict(kind="statio", dim=2, n=64, b=8, nb=32, bb=4, box=box, method="uniform", seed=sd + 31 * ki + bi, draws=2,
                            **(dict(boxy=BOXES[(bi + 1 + ki) % 4]) if ki % 2 else {})))
            out.append(dict(kind="ode", n=64, b=8, box=box, method="uniform", seed=sd + 31 * ki + bi, draws=2))
    return out


def run(tier, seed):
    mc = [dict(module="Batching", tag="MC_Batching_history", cfg=MC_CFG % (5 if tier == "quick" else 6, "ge", 9, MC_PROPS))]
    return _dg.run(
        "C08", tier, seed, mc=mc, cfgs=cases(tier, seed), extra_leg=_contracts.leg(("pde",), 500),
        rule="MC: every batch of every history is a window of the (permuted) store; traces: ODE/stationary/non-stationary "
             "generators x uniform/grid x 4 boxes (negative, non-unit) x keys x 3-epoch histories; grid counts n=1..N (1-D) and "
             "r^2 (2-D); construction clauses CountMismatch/StoreShape/StoredPointOutsideDomain/BorderPointOffFacet/"
             "BorderPointLeavesFacet, event clauses BatchPointNotInStore/BatchShape/products; + constructor contracts (Contracts.tla): which "
             "(dim, nb, border batch, cartesian/paired sizes, grid n, RAR n_start) configurations are accepted and how nb / border batch "
             "size are normalised; distinct = distinct cfg",
        assumptions=[
            "closed-box / on-facet membership of each stored float is evaluated by the projection (exact float comparison in the "
            "array's dtype); TLA+ quantifies over points, stores, histories, counts, shapes and facet order",
            "PRNG keys are sampled (VERIF_SEED), not exhausted",
            "2-D grid sampling with a non-square n is rejected by the constructor and not generated",
        ],
    )
