"""C12 - per-sample equation parameters and heterogeneous parameters are aligned."""
from . import _func, _loss


def run(tier, seed):
    return _func.run(
        "C12", tier, seed, emitters=[("MC_Loss", _loss.MC % ("C12", 8), "MC_Loss_C12")], extras=lambda s: [],
        prepare=_loss.prepare(0), sig=_loss.sig,
        rule="TLC enumerates EVERY subset of batched keys of a 3-key parameter set x parameter shapes () / (1,) x ODE / stationary / "
             "non-stationary losses x network depending on the parameters through its output transform or not x heterogeneity maps "
             "(none, a declared key with the others missing, a declared key with the others None) x observed parameter x batch size x a normalisation term (`normp`) or a Dirichlet / Neumann condition (`bndp`) "
             "next to a parameter batch the network depends on; "
             "parameter tables have distinct (tagged) rows; every term must equal LossSemantics with ParamsRow / HetParams; "
             "distinct = distinct structure",
        assumptions=["polynomial networks, residuals and heterogeneity maps (exact under x64)",
                     "system losses with parameter batches are covered by C13's records"])
