"""C16 - residual-adaptive refinement follows its schedule and never exceeds capacity."""
from . import _rar


def run(tier, seed):
    return _rar.run(
        "C16", tier, seed,
        rule="MC: Rar.tla all schedules (start, every) x one/two axes with independent cap/nstart/sel, RarStore.tla store contents; "
             "traces: ODE / stationary / non-stationary generators driven in solver order (get_batch; trigger_rar) directly and through "
             "jinns.solve, start 0..3 x every 1..3 x 5 capacity profiles (time != space), until the store is full; clauses "
             "StepBeforeStart/StepOffSchedule/StepWithoutRoom/MissedScheduledStep/ActiveCountWrong/ActiveSlotsNotPrefix/"
             "ActiveCountExceedsStore; distinct = distinct cfg",
        assumptions=["a refinement step is observed as a change of the generator's step counter; active = non-zero sampling probability",
                     "PRNG sampled"])
