"""C09 - mini-batching permutes the point set and serves each point once per epoch."""
from __future__ import annotations

from . import _dg

MC_CFG = """CONSTANTS MaxN = %d
Rule = "%s"
MaxDraws = %d
WithMask = TRUE
SPECIFICATION Spec
%s
"""
PROPS = """INVARIANT TypeOK
INVARIANT StoreIsPermutation
INVARIANT BatchFromStore
INVARIANT BatchInsideWindow
INVARIANT ActiveStayActive
PROPERTY NoRepeatWhenDivides
PROPERTY CoverBeforeReshuffle
PROPERTY PromptReshuffle
PROPERTY MonitorAgrees
"""


def draws(neff, b):
    return 3 * (-(-neff // b)) + 2


def cases(tier, seed):
    N = 5 if tier == "quick" else 8
    out = []
    sd = 1000 * seed
    for n in range(1, N + 1):
        for b in range(1, n + 1):
            d = draws(n, b)
            k = sd + 10 * n + b
            n2 = N + 1 - n
            b2 = min(b, n2)
            out.append(dict(kind="ode", n=n, b=b, seed=k, draws=d))
            out.append(dict(kind="statio", dim=2, n=n, b=b, nb=4 * n2, bb=b2, seed=k, draws=max(d, draws(n2, b2))))
            out.append(dict(kind="statio", dim=1, n=n, b=b, nb=2, bb=2, seed=k, draws=d))
            out.append(dict(kind="nonstatio", dim=2, n=n, b=b, nb=4 * n, bb=b, nt=n2, bt=b2, seed=k, draws=max(d, draws(n2, b2))))
            out.append(dict(kind="nonstatio", dim=1, n=n2, b=b2, nb=2, bb=2, nt=n, bt=b, seed=k, draws=max(d, draws(n2, b2))))
            out.append(dict(kind="nonstatio", dim=2, n=n, b=b, nb=4 * n, bb=b, nt=n, bt=b, cart=False, seed=k, draws=d))
            out.append(dict(kind="obs", n=n, b=b, eqk=1, seed=k, draws=d))
            out.append(dict(kind="param", n=n, b=b, keys=["range", "table1"], seed=k, draws=d))
            out.append(dict(kind="multiobs", nets=[n, 0, n2] if b <= n2 else [n, 0], b=b, eqk=0, seed=k, draws=d))
    # border batch size independent of (smaller / larger than) the interior batch size, several border batches per epoch
    for nf in range(2, N + 1):
        for bb in range(1, nf + 1):
            for (n_, b_) in ((N, 1), (N, N), (nf, (bb % nf) + 1)):
                k = sd + 7000 + 100 * nf + 10 * bb + b_
                d = max(draws(n_, b_), draws(nf, bb))
                out.append(dict(kind="statio", dim=2, n=n_, b=b_, nb=4 * nf, bb=bb, seed=k, draws=d))
                if tier != "quick" or (nf + bb) % 2:
                    out.append(dict(kind="nonstatio", dim=2, n=n_, b=b_, nb=4 * nf, bb=bb, nt=2, bt=1, seed=k, draws=d))
    # the same histories with ONE compiled get_batch (what jinns.solve runs: traced int32 cursors and conditions), every batch-size
    # relation between the time and the space axis
    for (n, b, nt, bt) in ((4, 1, 6, 3), (5, 2, 4, 1), (3, 3, 7, 2), (6, 1, 6, 6), (4, 4, 5, 2)):
        k = sd + 7000 + 10 * n + bt
        d = max(draws(n, b), draws(nt, bt)) + 1
        out.append(dict(kind="nonstatio", dim=1, n=n, b=b, nb=None, bb=None, nt=nt, bt=bt, seed=k, draws=d, jit=True))
        out.append(dict(kind="nonstatio", dim=2, n=n, b=b, nb=8, bb=[1, 2, 2, 1, 2][n % 5], nt=nt, bt=bt, seed=k, draws=d, jit=True))
        out.append(dict(kind="statio", dim=2, n=n, b=b, nb=12, bb=[3, 1, 2][n % 3], seed=k, draws=d, jit=True))
        out.append(dict(kind="ode", n=nt, b=bt, seed=k, draws=draws(nt, bt) + 1, jit=True))
        out.append(dict(kind="ode", n=nt, b=bt, rar=True, nstart=max(1, nt - 2), seed=k, draws=draws(nt, bt) + 1, jit=True))
    # a start count (n_start / nt_start) given WITHOUT the refinement option: it has no meaning and every stored point is served
    for (n, b, ns) in ((6, 2, 3), (5, 2, 2), (4, 4, 1)):
        k = sd + 9000 + 10 * n + ns
        out.append(dict(kind="ode", n=n, b=b, stray_nstart=ns, seed=k, draws=draws(n, b) + 1))
        out.append(dict(kind="statio", dim=1 + n % 2, n=n, b=b, nb=None, bb=None, stray_nstart=ns, seed=k, draws=draws(n, b) + 1))
        out.append(dict(kind="nonstatio", dim=1, n=n, b=b, nb=None, bb=None, nt=n, bt=b, stray_nstart=ns, seed=k, draws=draws(n, b) + 1))
    # stores with an active RAR probability mask (active prefix nstart < n)
    M = 4 if tier == "quick" else 6
    for n in range(2, M + 1):
        for ns in range(1, n):
            for b in range(1, n + 1):
                d = draws(ns, b) + 1
                k = sd + 100 * n + 10 * ns + b
                out.append(dict(kind="ode", n=n, b=b, rar=True, nstart=ns, seed=k, draws=d))
                out.append(dict(kind="statio", dim=2, n=n, b=b, nb=None, bb=None, rar=True, nstart=ns, seed=k, draws=d))
                if tier != "quick" or b <= 2:
                    out.append(dict(kind="nonstatio", dim=1, n=n, b=b, nb=None, bb=None, nt=n, bt=b, rar=True, nstart=ns,
                                    ntstart=max(1, n - ns), seed=k, draws=d))
    return out


def refined_leg(tier, seed):
    """batches served by generators WHILE residual-adaptive refinement adds points (the active count grows between draws): the draw
    clauses of Batching on the traces of the refinement driver (Trace_Rar with Prop = C09)"""
    from .. import core, tracecheck
    from . import _rar

    cfgs = [c for c in _rar.cases(tier, seed) if c.get("mode") != "solve" and not c.get("sys")]
    cfgs = cfgs[:: 3 if tier == "quick" else 1]
    traces = core.run_drivers("harness.drv_rar:run_case", cfgs)
    crashed = [t for t in traces if "tb" in t]
    if crashed:
        raise core.MachineryError("driver crashed: " + crashed[0]["tb"])
    raised = [t for t in traces if t.get("codeexc")]
    live = [t for t in traces if not t.get("codeexc") and not t.get("skipped") and not t.get("exc")]
    if not live and not raised:
        raise core.MachineryError("vacuous: no refinement trace for the draw clauses")
    sc = core.Scratch("C09rar")
    try:
        slim = [{k: v for k, v in t.items() if k != "cfg"} for t in live]
        rej, acc, res = tracecheck.validate("Trace_Rar", _rar.TRACE_CFG % "C09", slim, sc, "trC09rar")
        viol = []
        for r in rej:
            t = live[r["tid"]]
            viol.append(dict(clause="Refined_" + r["clause"], sig=dict(leg="refined", **_dg.sig_of(t["cfg"], "")), detail=f"event {r['ev']}",
                             driver="harness.drv_rar:run_case", cfg=t["cfg"], record=t))
        for t in raised:
            viol.append(dict(clause="Refined_GeneratorRaised", sig=dict(leg="refined", **_dg.sig_of(t["cfg"], "")), detail=t["codeexc"],
                             driver="harness.drv_rar:run_case", cfg=t["cfg"], record=t))
        steps = sum(1 for t in live for e in t["ev"] if e["stepped"])
        if live and not steps:
            raise core.MachineryError("vacuous: no refinement step in the refined-draw traces")
        return viol, dict(refined_traces=len(live), refined_traces_accepted=acc, refined_draws=sum(len(t["ev"]) for t in live), refinement_steps_in_them=steps)
    finally:
        sc.cleanup()


def run(tier, seed):
    maxn = 5 if tier == "quick" else 6
    mc = [
        dict(module="Batching", tag="MC_Batching_ge", cfg=MC_CFG % (maxn, "ge", 9 if tier == "quick" else 10, PROPS)),
        # regression witness: the pinned tree's epoch-end test (bend > n) breaks the property
        dict(module="Batching", tag="MC_Batching_gt_witness", cfg=MC_CFG % (3, "gt", 5, "PROPERTY NoRepeatWhenDivides\n"),
             expect=("fail", "NoRepeatWhenDivides"), workers=4),
    ]
    return _dg.run(
        "C09", tier, seed, mc=mc, cfgs=cases(tier, seed), extra_leg=refined_leg,
        apalache=("CursorInd", [("Init=>IndInv", "Init", "IndInv", 0), ("IndInv inductive", "IndInit", "IndInv", 1),
                                ("IndInv=>NoClampWhenDivides", "IndInit", "NoClampWhenDivides", 0)]),
        rule="MC: Batching.tla all 1<=B<=N<=MaxN, all active prefixes, all permutations at every reshuffle; "
             "traces: every 1<=b<=n<=N for each store kind (times, interior, border rows, obs indices, parameter keys, "
             "multi-network obs), 3 epochs + 2 draws, with and without an active RAR mask; + Apalache: the cursor / capacity arithmetic "
             "(CursorInd.tla) for ALL sizes by an inductive invariant (window inside the store, cursor multiple of b, no clamping when b divides "
             "the active count, active count <= store); distinct = distinct cfg",
        assumptions=[
            "stored values are identified by exact bytes; seeds producing duplicate floats are skipped (counted)",
            "PRNG outcomes are sampled (seeded) in the traces and exhausted (all permutations) in the model",
            "lax.dynamic_slice clamping is modelled by Clamp()",
        ],
    )
