"""Polynomial networks and exact-value helpers for the functional checks (DESIGN 2.3).

A polynomial field given as term lists [{c, e}, ...] per output component is turned into an
eqx.Module (coefficients = network parameters, exponents = static structure) and wrapped by the
REAL jinns PINN.  With x64 enabled and small integer inputs every intermediate value is an exactly
representable integer, so code = spec is an equality of integers."""
from __future__ import annotations

from fractions import Fraction

import numpy as np

LIM = 2 ** 31 - 1


def frac(x):
    """float -> {"n","d","ok"} exact; ok=False when not finite or out of TLC's integer range"""
    x = float(x)
    if x != x or x in (float("inf"), float("-inf")):
        return dict(n=0, d=1, ok=False)
    f = Fraction(x)
    if abs(f.numerator) > LIM or f.denominator > LIM:
        return dict(n=0, d=1, ok=False)
    return dict(n=int(f.numerator), d=int(f.denominator), ok=True)


def fracs(a):
    return [frac(v) for v in np.asarray(a, dtype=np.float64).ravel()]


def basis_of(fields):
    """common static exponent table of several term lists"""
    E = []
    for p in fields:
        for tm in p:
            e = tuple(int(v) for v in tm["e"])
            if e not in E:
                E.append(e)
    return tuple(E)


def coeffs_of(fields, E):
    C = np.zeros((len(fields), max(1, len(E))))
    for j, p in enumerate(fields):
        for tm in p:
            C[j, E.index(tuple(int(v) for v in tm["e"]))] += tm["c"]
    return C


_POLYMLP = None


def _polymlp_class():
    """one class object per process: parameters built by one call must combine with the static part of another"""
    global _POLYMLP
    if _POLYMLP is None:
        import jax
        import jax.numpy as jnp
        import equinox as eqx

        class PolyMLP(eqx.Module):
            C: jax.Array
            E: tuple = eqx.field(static=True)

            def __call__(self, z):
                mons = []
                for e in self.E:
                    m = jnp.ones((), dtype=z.dtype)
                    for i, p in enumerate(e):
                        if p:
                            m = m * z[i] ** int(p)
                    mons.append(m)
                return self.C @ jnp.stack(mons)

        _POLYMLP = PolyMLP
    return _POLYMLP


def make_polymlp(fields, E=None):
    import jax.numpy as jnp

    E = basis_of(fields) if E is None else E
    if not E:
        E = ((0,) * 1,)
    return _polymlp_class()(jnp.asarray(coeffs_of(fields, E)), E)


def polyeval(terms, z):
    """evaluate a term list on a sequence of jax scalars (used inside crafted user equations)"""
    import jax.numpy as jnp

    out = jnp.zeros(())
    for tm in terms:
        m = jnp.asarray(float(tm["c"]))
        for i, p in enumerate(tm["e"]):
            if p:
                m = m * z[i] ** int(p)
        out = out + m
    return out


def make_pinn(fields, eq_type, E=None, input_transform=None, output_transform=None, slice_solution=None, output_slice=None):
    import jax.numpy as jnp
    from jinns.utils._pinn import PINN

    return PINN(mlp=make_polymlp(fields, E), slice_solution=jnp.s_[:] if slice_solution is None else slice_solution,
                eq_type=eq_type, input_transform=input_transform or (lambda i, p: i),
                output_transform=output_transform or (lambda i, o, p: o), output_slice=output_slice)
