"""
Drivers for the data generators (C08 C09 C14 C15): run the REAL jinns generators over one
configuration + history of get_batch calls and project every returned generator / batch to
the abstract state of spec/BatchingOps.tla / DataGenOps.tla (point identities, cursors).

The projection is deliberately trivial and exact: a stored value is identified by its bytes.
"""

from __future__ import annotations

import numpy as np


def _np(a):
    return np.asarray(a)


class Registry:
    """value (exact bytes) -> identity 1..n ; unknown values -> 0"""

    def __init__(self, rows):
        self.map = {}
        self.dup = False
        self.ndup = 0
        for k, r in enumerate(rows):
            key = np.ascontiguousarray(r).tobytes()
            if key in self.map:
                self.dup = True
                self.ndup += 1
            else:
                self.map[key] = k + 1

    def id(self, r):
        return self.map.get(np.ascontiguousarray(r).tobytes(), 0)

    def ids(self, rows):
        return [self.id(r) for r in rows]


def _store(name, **kw):
    d = dict(
        name=name,
        label=name,
        mode="cursor",
        observable=True,
        req=0,
        b=1,
        neff=0,
        init=[],
        cur0=0,
        inDom=[],
        shape=[],
        onFacet=[],
        along=[],
        mask=[],
        userTable=False,
    )
    d.update(kw)
    return d


def _evst(cur=0, order=(), bt=(), rows=(), shape=()):
    return dict(cur=int(cur), order=list(order), bt=list(bt), rows=[list(r) for r in rows], shape=list(shape))


def _event(st, inside=(), border=(), shapes=None, emptyOK=True):
    sh = dict(t=[], inside=[], border=[])
    sh.update(shapes or {})
    return dict(st=st, inside=[list(r) for r in inside], border=[[list(r) for r in f] for f in border], shapes=sh, emptyOK=bool(emptyOK))


def _trace(cfg, kind, dim=1, cart=True):
    # fresh: the generator has not served a batch yet (sentinel cursors): its first draw must reshuffle
    return dict(cfg=cfg, kind=kind, dim=dim, cart=bool(cart), fresh=True, exc="", skipped="", stores=[], ev=[])


def _box(cfg):
    lo, hi = cfg.get("box", [0.0, 1.0])
    return float(lo), float(hi)


def _boxv(cfg, dim):
    """per-dimension bounds: "box" for the first coordinate, "boxy" (default: the same) for the second"""
    lo, hi = _box(cfg)
    if dim == 1 or "boxy" not in cfg:
        return (lo,) * dim, (hi,) * dim
    lo2, hi2 = cfg["boxy"]
    return (lo, float(lo2)) + (lo,) * (dim - 2), (hi, float(hi2)) + (hi,) * (dim - 2)


def _rar(cfg, which):
    if not cfg.get("rar"):
        return None
    d = {"start_iter": 1000, "update_every": 1, "sample_size_times": 4, "selected_sample_size_times": 1,
         "sample_size_omega": 4, "selected_sample_size_omega": 1}
    return d


def _dup(tr, cfg):
    """two stored points with identical bytes: with random sampling an (unlikely) accident of float arithmetic - the trace cannot be
    decoded and is skipped; with grid sampling the points of a store are distinct by construction, so it is reported.  An accident
    produces ONE pair of in-domain points: a store repeating points several times, or holding a point outside its domain, is reported"""
    ndup = tr.pop("_ndup", 0)
    outside = any(not all(st.get("inDom", [])) for st in tr["stores"]) or tr.pop("_outside", False)
    if cfg.get("method") == "grid":
        tr["exc"] = "GridPointsNotDistinct: a grid-sampled store holds the same point twice"
    elif outside:
        tr["exc"] = "StoredPointOutsideDomain: a store holds repeated points, one of them outside the domain it was built for"
    elif ndup >= 2:
        tr["exc"] = f"StoredPointsNotDistinct: {ndup} stored points repeat another stored point (random sampling: at most an accidental pair)"
    else:
        tr["skipped"] = "duplicate floats in store"


_GB = {}


def _gb(cfg):
    """the draw function of a case: plain get_batch, or - cfg["jit"] - ONE compiled get_batch re-used for every draw of the history
    (int32 cursor arithmetic, traced conditions: what jinns.solve runs)"""
    if not cfg.get("jit"):
        return lambda g: g.get_batch()
    f = _GB.get(id(cfg))
    if f is None:
        import jax
        _GB.clear()
        f = _GB[id(cfg)] = jax.jit(lambda g: g.get_batch())
    return f


def _mask(p, n):
    if p is None:
        return [True] * n
    return [bool(v != 0) for v in _np(p)]


# ----------------------------------------------------------------------------------------


def case_ode(cfg):
    import jax
    from jinns.data._DataGenerators import DataGeneratorODE

    n, b = cfg["n"], cfg["b"]
    lo, hi = _box(cfg)
    tr = _trace(cfg, "ode")
    rar = _rar(cfg, "times")
    try:
        g = DataGeneratorODE(jax.random.PRNGKey(cfg["seed"]), n, lo, hi, b, cfg.get("method", "uniform"),
                             rar, cfg.get("nstart") if rar else cfg.get("stray_nstart"))      # stray_nstart: a start count given WITHOUT the refinement option (ignored)
    except Exception as ex:  # construction rejected
        tr["exc"] = f"{type(ex).__name__}: {str(ex)[:120]}"
        return tr
    times = _np(g.times)
    reg = Registry(times)
    dt = times.dtype.type
    if reg.dup:
        tr["_ndup"] = reg.ndup
        tr["_outside"] = not all(bool(dt(lo) <= v <= dt(hi)) for v in times)
        _dup(tr, cfg)
        return tr
    tr["stores"].append(_store(
        "times", req=n, b=b, neff=(cfg["nstart"] if rar else n), init=reg.ids(times), cur0=int(g.curr_time_idx),
        inDom=[bool(dt(lo) <= v <= dt(hi)) for v in times], shape=list(times.shape), mask=_mask(g.p_times, len(times))))
    for _ in range(cfg["draws"]):
        g, batch = _gb(cfg)(g)
        tb = _np(batch.temporal_batch)
        tr["ev"].append(_event([_evst(g.curr_time_idx, reg.ids(_np(g.times)), reg.ids(tb))], shapes=dict(t=list(tb.shape))))
    return tr


def _border_store(g, cfg, dim, lo, hi):
    bd = _np(g.omega_border)
    dt = bd.dtype.type
    if dim == 1:
        reg = Registry([bd.reshape(1, 2)])
        lo, hi = np.asarray(lo, dtype=np.float64).reshape(-1)[0], np.asarray(hi, dtype=np.float64).reshape(-1)[0]
        st = _store("border", mode="static", req=1, b=1, neff=1, init=[1], cur0=0, inDom=[True], shape=list(bd.shape),
                    onFacet=[[bool(bd[0] == dt(lo)), bool(bd[1] == dt(hi))]], along=[[True, True]], mask=[True])
        facet_regs = [Registry([bd[0:1]]), Registry([bd[1:2]])]
        return st, reg, facet_regs
    nbf = bd.shape[0]
    reg = Registry(list(bd))
    on, al = [], []
    lx, ly = (dt(v) for v in np.broadcast_to(np.asarray(lo, dtype=np.float64), (2,)))
    hx, hy = (dt(v) for v in np.broadcast_to(np.asarray(hi, dtype=np.float64), (2,)))
    for k in range(nbf):
        m = bd[k]  # (2, 4): rows = coordinates, columns = facets xmin xmax ymin ymax
        on.append([bool(m[0, 0] == lx), bool(m[0, 1] == hx), bool(m[1, 2] == ly), bool(m[1, 3] == hy)])
        al.append([bool(ly <= m[1, 0] <= hy), bool(ly <= m[1, 1] <= hy), bool(lx <= m[0, 2] <= hx), bool(lx <= m[0, 3] <= hx)])
    st = _store("border", req=cfg["nb"] // 4, b=cfg["bb"], neff=nbf, init=reg.ids(list(bd)),
                cur0=int(g.curr_omega_border_idx), inDom=[True] * nbf, shape=list(bd.shape), onFacet=on, along=al,
                mask=[True] * nbf)
    facet_regs = [Registry([bd[k, :, f] for k in range(nbf)]) for f in range(4)]
    return st, reg, facet_regs


def _flag(cfg):
    """the product / pairing flag as the user may hand it over: a Python bool, a numpy bool or an integer"""
    v = bool(cfg.get("cart", True))
    return {"bool": v, "np": np.bool_(v), "int": int(v)}[cfg.get("cartform", "bool")]


def _mk_pde(cfg, nonstatio):
    import jax
    from jinns.data._DataGenerators import CubicMeshPDEStatio, CubicMeshPDENonStatio

    dim = cfg["dim"]
    lo, hi = _boxv(cfg, dim)
    rar = _rar(cfg, "omega")
    kw = dict(key=jax.random.PRNGKey(cfg["seed"]), n=cfg["n"], nb=cfg.get("nb"), omega_batch_size=cfg["b"],
              omega_border_batch_size=cfg.get("bb"), dim=dim, min_pts=tuple(lo), max_pts=tuple(hi),
              method=cfg.get("method", "uniform"), rar_parameters=rar, n_start=cfg.get("nstart") if rar else cfg.get("stray_nstart"))
    if nonstatio:
        tlo, thi = cfg.get("tbox", [0.0, 1.0])
        kw.update(nt=cfg["nt"], temporal_batch_size=cfg["bt"], tmin=float(tlo), tmax=float(thi),
                  cartesian_product=_flag(cfg), nt_start=cfg.get("ntstart") if rar else cfg.get("stray_nstart"))
        return CubicMeshPDENonStatio(**kw)
    return CubicMeshPDEStatio(**kw)


def _omega_store(g, cfg, dim, lo, hi):
    om = _np(g.omega)
    dt = om.dtype.type
    reg = Registry(list(om))
    rar = bool(cfg.get("rar"))
    st = _store("omega", req=cfg["n"], b=cfg["b"], neff=(cfg["nstart"] if rar else cfg["n"]), init=reg.ids(list(om)),
                cur0=int(g.curr_omega_idx),
                inDom=[bool(np.all((np.asarray(lo, dtype=om.dtype) <= r) & (r <= np.asarray(hi, dtype=om.dtype)))) for r in om],
                shape=list(om.shape), mask=_mask(g.p_omega, om.shape[0]))
    return st, reg


def case_statio(cfg):
    dim = cfg["dim"]
    lo, hi = _boxv(cfg, dim)
    tr = _trace(cfg, "statio", dim)
    try:
        g = _mk_pde(cfg, False)
    except Exception as ex:
        tr["exc"] = f"{type(ex).__name__}: {str(ex)[:120]}"
        return tr
    st_o, reg_o = _omega_store(g, cfg, dim, lo, hi)
    tr["stores"].append(st_o)
    has_b = cfg.get("bb") is not None
    if has_b:
        st_b, reg_b, _ = _border_store(g, cfg, dim, lo, hi)
        tr["stores"].append(st_b)
    if reg_o.dup or (has_b and reg_b.dup):
        tr["_ndup"] = reg_o.ndup + (reg_b.ndup if has_b else 0)
        _dup(tr, cfg)
        return tr
    for _ in range(cfg["draws"]):
        g, batch = _gb(cfg)(g)
        xb = _np(batch.inside_batch)
        st = [_evst(g.curr_omega_idx, reg_o.ids(list(_np(g.omega))), reg_o.ids(list(xb)))]
        shapes = dict(inside=list(xb.shape))
        if has_b:
            bb = _np(batch.border_batch)
            shapes["border"] = list(bb.shape)
            if dim == 1:
                st.append(_evst(0, [reg_b.id(_np(g.omega_border).reshape(1, 2))], [reg_b.id(bb[k]) for k in range(bb.shape[0])]))
            else:
                st.append(_evst(g.curr_omega_border_idx, reg_b.ids(list(_np(g.omega_border))), reg_b.ids(list(bb))))
        elif batch.border_batch is not None:
            shapes["border"] = list(_np(batch.border_batch).shape)
        tr["ev"].append(_event(st, shapes=shapes))
    return tr


def case_nonstatio(cfg):
    dim = cfg["dim"]
    lo, hi = _boxv(cfg, dim)
    tlo, thi = cfg.get("tbox", [0.0, 1.0])
    tr = _trace(cfg, "nonstatio", dim, cfg.get("cart", True))
    try:
        g = _mk_pde(cfg, True)
    except Exception as ex:
        tr["exc"] = f"{type(ex).__name__}: {str(ex)[:120]}"
        return tr
    st_o, reg_o = _omega_store(g, cfg, dim, lo, hi)
    st_o["observable"] = False
    tr["stores"].append(st_o)
    has_b = cfg.get("bb") is not None
    if has_b:
        st_b, reg_b, freg = _border_store(g, cfg, dim, lo, hi)
        st_b["observable"] = False
        tr["stores"].append(st_b)
    times = _np(g.times)
    dt = times.dtype.type
    reg_t = Registry(times)
    rar = bool(cfg.get("rar"))
    tr["stores"].append(_store(
        "times", observable=False, req=cfg["nt"], b=cfg["bt"], neff=(cfg["ntstart"] if rar else cfg["nt"]),
        init=reg_t.ids(times), cur0=int(g.curr_time_idx), inDom=[bool(dt(tlo) <= v <= dt(thi)) for v in times],
        shape=list(times.shape), mask=_mask(g.p_times, len(times))))
    if reg_o.dup or reg_t.dup or (has_b and reg_b.dup):
        tr["_ndup"] = reg_o.ndup + reg_t.ndup + (reg_b.ndup if has_b else 0)
        _dup(tr, cfg)
        return tr
    for _ in range(cfg["draws"]):
        g, batch = _gb(cfg)(g)
        tx = _np(batch.times_x_inside_batch)
        inside = [[reg_t.id(r[0]), reg_o.id(r[1:])] for r in tx]
        st = [_evst(g.curr_omega_idx, reg_o.ids(list(_np(g.omega))))]
        shapes = dict(inside=list(tx.shape))
        border = []
        if has_b:
            tdx = _np(batch.times_x_border_batch)
            shapes["border"] = list(tdx.shape)
            if dim == 1:
                st.append(_evst(0, [reg_b.id(_np(g.omega_border).reshape(1, 2))]))
            else:
                st.append(_evst(g.curr_omega_border_idx, reg_b.ids(list(_np(g.omega_border)))))
            nf = tdx.shape[-1] if tdx.ndim == 3 else 0
            for f in range(nf):
                border.append([[reg_t.id(tdx[k, 0, f]), freg[f].id(tdx[k, 1:, f]) if f < len(freg) else 0]
                               for k in range(tdx.shape[0])])
        elif batch.times_x_border_batch is not None:
            shapes["border"] = list(_np(batch.times_x_border_batch).shape)
        st.append(_evst(g.curr_time_idx, reg_t.ids(_np(g.times))))
        tr["ev"].append(_event(st, inside=inside, border=border, shapes=shapes))
    return tr


# ---- observation / parameter loaders (C15, C09) ------------------------------------------


def _obs_tables(n, din, dout, eqk):
    import jax.numpy as jnp

    pin = np.arange(n, dtype=np.float32)[:, None] + 1000.0 * np.arange(din, dtype=np.float32)[None, :]
    val = 100.0 + np.arange(n, dtype=np.float32)[:, None] + 1000.0 * np.arange(dout, dtype=np.float32)[None, :]
    eq = {f"p{j}": (200.0 + 50.0 * j + np.arange(n, dtype=np.float32))[:, None] for j in range(eqk)}
    return pin, val, eq


def _obs_gen(cfg, seed, n, key=None):
    import jax
    import jax.numpy as jnp
    from jinns.data._DataGenerators import DataGeneratorObservations

    pin, val, eq = _obs_tables(n, cfg.get("din", 1), cfg.get("dout", 1), cfg.get("eqk", 0))
    pin_arg = pin[:, 0] if cfg.get("flat_in") and pin.shape[1] == 1 else pin
    val_arg = val[:, 0] if cfg.get("flat_val") and val.shape[1] == 1 else val
    eq_arg = {k: (jnp.asarray(v[:, 0]) if cfg.get("flat_eq") else jnp.asarray(v)) for k, v in eq.items()}
    shard = jax.sharding.SingleDeviceSharding(jax.devices()[0]) if cfg.get("shard") else None
    g = DataGeneratorObservations(jax.random.PRNGKey(seed) if key is None else key, cfg["b"], jnp.asarray(pin_arg),
                                  jnp.asarray(val_arg), eq_arg, shard)
    return g, pin, val, eq


def _obs_project(g, batch, regs, b):
    rin, rval, req = regs
    order = [int(v) + 1 for v in _np(g.indices)]
    if not (isinstance(batch, dict) and batch.get("pinn_in") is not None and batch.get("val") is not None):
        return _evst(g.curr_idx, order, [], [], [0])       # a network WITH observations received no batch: zero rows (clause BatchSize)
    pin = _np(batch["pinn_in"])
    val = _np(batch["val"])
    rows = []
    for j in range(pin.shape[0]):
        row = [rin.id(pin[j]), rval.id(val[j]) if j < val.shape[0] else 0]
        for k in sorted(req):
            a = _np(batch["eq_params"][k]) if k in batch["eq_params"] else None
            row.append(req[k].id(a[j]) if a is not None and j < a.shape[0] else 0)
        rows.append(row)
    return _evst(g.curr_idx, order, [r[0] for r in rows], rows, list(pin.shape))


def case_obs(cfg):
    n = cfg["n"]
    tr = _trace(cfg, "obs")
    try:
        g, pin, val, eq = _obs_gen(cfg, cfg["seed"], n)
    except Exception as ex:
        tr["exc"] = f"{type(ex).__name__}: {str(ex)[:120]}"
        return tr
    regs = (Registry(list(pin)), Registry(list(val)), {k: Registry(list(v)) for k, v in eq.items()})
    tr["stores"].append(_store("indices", req=n, b=cfg["b"], neff=n, init=[int(v) + 1 for v in _np(g.indices)],
                               cur0=int(g.curr_idx), inDom=[True] * n, shape=[n], mask=[True] * n))
    for _ in range(cfg["draws"]):
        g, batch = _gb(cfg)(g)
        tr["ev"].append(_event([_obs_project(g, batch, regs, cfg["b"])]))
    return tr


def case_multiobs(cfg):
    import jax
    import jax.numpy as jnp
    from jinns.data._DataGenerators import DataGeneratorObservationsMultiPINNs

    nets = cfg["nets"]  # list of table sizes, 0 = no observations for that network
    tr = _trace(cfg, "multiobs")
    pins, vals, eqs, regs = {}, {}, {}, {}
    for j, n in enumerate(nets):
        name = f"u{j}"
        if n == 0:
            pins[name], vals[name], eqs[name] = None, None, {}
            continue
        pin, val, eq = _obs_tables(n, cfg.get("din", 1), cfg.get("dout", 1), cfg.get("eqk", 0))
        off = np.float32(10000.0 * (j + 1))      # every table of every network is distinct
        pin, val, eq = pin + off, val + off, {k: v + off for k, v in eq.items()}
        pins[name], vals[name] = jnp.asarray(pin), jnp.asarray(val)
        eqs[name] = {k: jnp.asarray(v) for k, v in eq.items()}
        regs[name] = (Registry(list(pin)), Registry(list(val)), {k: Registry(list(v)) for k, v in eq.items()})
    # the three user dictionaries may list the networks in different (insertion) orders
    rot = cfg.get("rot", 0)
    names = list(pins)
    vals = {k: vals[k] for k in names[::-1]} if rot & 1 else vals
    eqs = {k: eqs[k] for k in names[1:] + names[:1]} if rot & 2 else eqs
    pins = {k: pins[k] for k in names[-1:] + names[:-1]} if rot & 4 else pins      # the inputs dictionary itself not in sorted key order
    try:
        g = DataGeneratorObservationsMultiPINNs(cfg["b"], pins, vals, observed_eq_params_dict=eqs,
                                                key=jax.random.PRNGKey(cfg["seed"]))
    except Exception as ex:
        tr["exc"] = f"{type(ex).__name__}: {str(ex)[:120]}"
        return tr
    present = [f"u{j}" for j, n in enumerate(nets) if n > 0]
    for name in present:
        sub = g.data_gen_obs[name]
        n = int(sub.n)
        tr["stores"].append(_store("indices", label=name, req=nets[int(name[1:])], b=cfg["b"], neff=n,
                                   init=[int(v) + 1 for v in _np(sub.indices)], cur0=int(sub.curr_idx), inDom=[True] * n,
                                   shape=[n], mask=[True] * n))
    for _ in range(cfg["draws"]):
        g, batches = _gb(cfg)(g)
        st = []
        empty_ok = set(batches.keys()) == {f"u{j}" for j in range(len(nets))}
        for j, n in enumerate(nets):
            name = f"u{j}"
            if n == 0:
                e = batches.get(name, "missing")
                empty_ok = empty_ok and (e is None or (isinstance(e, dict) and len(e) == 0))
            else:
                st.append(_obs_project(g.data_gen_obs[name], batches[name], regs[name], cfg["b"]))
        tr["ev"].append(_event(st, emptyOK=empty_ok))
    return tr


def case_param(cfg):
    import jax
    import jax.numpy as jnp
    from jinns.data._DataGenerators import DataGeneratorParameter

    n, b = cfg["n"], cfg["b"]
    tr = _trace(cfg, "param")
    ranges, user, tables = {}, {}, {}
    for j, spec in enumerate(cfg["keys"]):  # spec: "range" | "table1" (n,) | "table2" (n,1) | "both1" | "both2"
        k = f"k{j}"
        if spec in ("range", "both1", "both2"):
            ranges[k] = (float(10 * j), float(10 * j + 5))
        if spec != "range":
            tab = (500.0 + 100.0 * j + np.arange(n, dtype=np.float32))
            tables[k] = tab[:, None]
            user[k] = jnp.asarray(tab if spec.endswith("1") else tab[:, None])
    try:
        # an empty part is passed as None (its documented default) in every other configuration
        none_ok = bool(cfg["seed"] % 2)
        g = DataGeneratorParameter(jax.random.PRNGKey(cfg["seed"]), n, b, param_ranges=(ranges or None) if none_ok else ranges,
                                   method=cfg.get("method", "uniform"), user_data=(user or None) if none_ok else user)
    except Exception as ex:
        tr["exc"] = f"{type(ex).__name__}: {str(ex)[:120]}"
        return tr
    regs = {}
    names = sorted(set(ranges) | set(user))
    for k in names:
        stored = _np(g.param_n_samples[k])
        src = tables[k] if k in tables else stored
        regs[k] = Registry(list(src))
        if regs[k].dup:
            _dup(tr, cfg)
            return tr
        if k in tables:
            indom = [True] * stored.shape[0]
        else:
            lo, hi = ranges[k]
            dt = stored.dtype.type
            indom = [bool(dt(lo) <= v[0] <= dt(hi)) for v in stored]
        tr["stores"].append(_store("param", label=k, req=n, b=b, neff=n, init=regs[k].ids(list(stored)),
                                   cur0=int(g.curr_param_idx[k]), inDom=indom, shape=list(stored.shape), mask=[True] * stored.shape[0],
                                   userTable=(k in tables)))
    for _ in range(cfg["draws"]):
        g, batch = _gb(cfg)(g)
        st = []
        for k in names:
            bt = _np(batch[k])
            st.append(_evst(g.curr_param_idx[k], regs[k].ids(list(_np(g.param_n_samples[k]))), regs[k].ids(list(bt)), shape=list(bt.shape)))
        tr["ev"].append(_event(st, emptyOK=(set(batch.keys()) == set(names))))
    return tr


CASES = dict(ode=case_ode, statio=case_statio, nonstatio=case_nonstatio, obs=case_obs, multiobs=case_multiobs, param=case_param)


def run_case(cfg):
    """an exception raised INSIDE jinns while a case runs is a datum (the generator raised on a legal history), an exception of the
    harness itself is a crash of the driver"""
    import os
    import traceback

    try:
        return CASES[cfg["kind"]](cfg)
    except Exception as ex:  # noqa
        frames = traceback.extract_tb(ex.__traceback__)
        in_code = frames and os.sep + "jinns" + os.sep in frames[-1].filename and "/verif/" not in frames[-1].filename
        jax_after_code = any(os.sep + "jinns" + os.sep in f.filename for f in frames[-12:]) and "site-packages" in frames[-1].filename
        if not (in_code or jax_after_code):
            raise
        tr = _trace(cfg, cfg["kind"], cfg.get("dim", 1), cfg.get("cart", True))
        where = next((f"{os.path.basename(f.filename)}:{f.lineno}" for f in reversed(frames) if os.sep + "jinns" + os.sep in f.filename), "?")
        tr["exc"] = f"GeneratorRaised at {where}: {type(ex).__name__}: {str(ex)[:120]}"
        return tr


# ---- generators as advanced BY jinns.solve (hook H2): one draw before the loop (probe) + one draw per iteration ----------
def case_solvegen(cfg):
    """runs jinns.solve on a small problem and records, from hook H2, the state of every store of the main generator after the
    probe draw and after each iteration's draw; the trace is validated by the same Batching clauses as direct get_batch calls"""
    import warnings

    import equinox as eqx
    import jax
    import jax.numpy as jnp
    import optax
    import jinns
    from jinns import _verif
    from jinns.loss import ODE, PDEStatio, PDENonStatio

    warnings.simplefilter("ignore")
    gk = cfg["gkind"]
    key = jax.random.PRNGKey(cfg["seed"])
    tr = _trace(cfg, "solvegen", cfg.get("dim", 1))
    if gk == "ode":
        g = jinns.data.DataGeneratorODE(key, cfg["n"], 0.0, 1.0, cfg["b"])
        u = jinns.utils.create_PINN(key, ((eqx.nn.Linear, 1, 1),), "ODE")

        class Eq(ODE):
            def equation(self, t, u, p):
                return u(t, p)
        L = jinns.loss.LossODE
    elif gk == "statio":
        dim = cfg["dim"]
        g = jinns.data.CubicMeshPDEStatio(key=key, n=cfg["n"], nb=cfg.get("nb"), omega_batch_size=cfg["b"], omega_border_batch_size=cfg.get("bb"),
                                          dim=dim, min_pts=(0.0,) * dim, max_pts=(1.0,) * dim)
        u = jinns.utils.create_PINN(key, ((eqx.nn.Linear, dim, 1),), "statio_PDE", dim)

        class Eq(PDEStatio):
            def equation(self, x, u, p):
                return u(x, p)
        L = jinns.loss.LossPDEStatio
    else:
        dim = cfg["dim"]
        g = jinns.data.CubicMeshPDENonStatio(key=key, n=cfg["n"], nb=cfg.get("nb"), nt=cfg["nt"], omega_batch_size=cfg["b"],
                                             omega_border_batch_size=cfg.get("bb"), temporal_batch_size=cfg["bt"], dim=dim, min_pts=(0.0,) * dim,
                                             max_pts=(1.0,) * dim, tmin=0.0, tmax=1.0, cartesian_product=cfg.get("cart", True))
        u = jinns.utils.create_PINN(key, ((eqx.nn.Linear, dim + 1, 1),), "nonstatio_PDE", dim)

        class Eq(PDENonStatio):
            def equation(self, t, x, u, p):
                return u(t, x, p)
        L = jinns.loss.LossPDENonStatio
    params = jinns.parameters.Params(nn_params=u.init_params(), eq_params={})
    loss = L(u=u, dynamic_loss=Eq(Tmax=1), params=params)
    stores = []      # (name, hook field of the store, hook field of the cursor, registry, batch size)
    if gk in ("ode", "nonstatio"):
        arr = _np(g.times)
        stores.append(("times", "times", "curr_time_idx", Registry(arr), cfg["b"] if gk == "ode" else cfg["bt"], arr, int(g.curr_time_idx)))
    if gk in ("statio", "nonstatio"):
        arr = _np(g.omega)
        stores.insert(0, ("omega", "omega", "curr_omega_idx", Registry(list(arr)), cfg["b"], arr, int(g.curr_omega_idx)))
        if cfg.get("bb") is not None and cfg["dim"] == 2:
            arr = _np(g.omega_border)
            stores.insert(1, ("border", "omega_border", "curr_omega_border_idx", Registry(list(arr)), cfg["bb"], arr, int(g.curr_omega_border_idx)))
    if any(s[3].dup for s in stores):
        _dup(tr, cfg)
        return tr
    for (name, f_store, f_cur, reg, b, arr, cur0) in stores:
        n = arr.shape[0]
        tr["stores"].append(_store(name, observable=False, req=n, b=b, neff=n, init=reg.ids(list(arr)), cur0=cur0, inDom=[True] * n,
                                   shape=list(arr.shape), mask=[True] * n))
    _verif.drain()
    out = jinns.solve(n_iter=cfg["iters"], init_params=params, data=g, loss=loss, optimizer=optax.sgd(0.0), verbose=False)
    jax.effects_barrier()
    evs = [e for e in _verif.drain() if e["kind"] in ("solve_init", "solve_draw")]
    if len(evs) != cfg["iters"] + 1 or evs[0]["kind"] != "solve_init":
        tr["exc"] = f"hook events: {[e['kind'] for e in evs][:4]}... ({len(evs)}) for {cfg['iters']} iterations"
        return tr
    for e in evs:
        st = [_evst(int(e[f_cur]), reg.ids(list(_np(e[f_store])))) for (name, f_store, f_cur, reg, b, arr, cur0) in stores]
        tr["ev"].append(_event(st))
    gret = out[3]
    last = tr["ev"][-1]["st"]
    for k, (name, f_store, f_cur, reg, b, arr, cur0) in enumerate(stores):
        if reg.ids(list(_np(getattr(gret, f_store)))) != last[k]["order"] or int(getattr(gret, f_cur)) != last[k]["cur"]:
            tr["exc"] = "returned generator is not the generator after the last draw"
    return tr


CASES["solvegen"] = case_solvegen
