"""
Driver for jinns.solve (C07 C18 C19): realises a scenario emitted by TLC from spec/Solve.tla as a
concrete training problem whose every numeric output is an injective encoding of abstract state
("tagged arithmetic", DESIGN 2.2), runs the public jinns.solve once, and decodes the returned
9-tuple into the projection compared by spec/Trace_Solve.tla.

  parameter version v      w = W0 - v, theta = TH0 - v   (optimizer "dec": every update subtracts 1)
  batch served             dyn term   = (1/B) * sum_{t in batch} 4^id(t)
  version at evaluation    initial-condition term = (v + 1)^2
  observation rows served  observation term = (1/B) * sum_{rows} 4^id(row)
  validation criterion     scripted module: the w it was called with; built-in: rank*M + batch masks
x64 is enabled in the worker, every value is an exactly representable integer (or dyadic).
"""

from __future__ import annotations

import math

import numpy as np

W0 = 50.0
TH0 = 100.0
_TAB = {}
NAN = -1
UNTOUCHED = -2
BAD = -3  # value that does not decode (the monitor rejects it)


def _dec_version(x, base):
    x = float(x)
    if math.isnan(x):
        return NAN
    if x == 0.0:
        return UNTOUCHED
    v = base - x
    return int(v) if float(int(v)) == v and 0 <= v < 45 else BAD


def _dec_all(arr, base):
    """version carried by EVERY entry of a leaf: NAN if any entry is NaN, BAD if the entries disagree"""
    vs = [_dec_version(x, base) for x in np.asarray(arr, dtype=np.float64).ravel()]
    if any(v == NAN for v in vs):
        return NAN
    return vs[0] if all(v == vs[0] for v in vs) else BAD


def _dec_mask(x, b, nbits):
    """x = (1/b) * sum 4^id  ->  sorted list of ids, None if it does not decode"""
    x = float(x)
    if math.isnan(x):
        return None
    m = x * b
    if m != int(m) or m < 0:
        return None
    m = int(m)
    ids = []
    k = 0
    while m:
        d = m % 4
        if d > 1 or k >= nbits:
            return None
        if d:
            ids.append(k)
        m //= 4
        k += 1
    return ids


def _ids_of_times(tb, npts):
    return sorted(int(round(float(t) * npts)) for t in np.asarray(tb).ravel())


def build(C, opt):
    """returns dict(run=callable -> 9-tuple, refs...)"""
    import jax
    import jax.numpy as jnp
    import equinox as eqx
    import optax
    import jinns
    from jinns.loss import ODE
    from jinns.utils._pinn import PINN
    from jinns.validation._validation import AbstractValidationModule, ValidationLoss

    npts, b = opt["npts"], opt["b"]
    # loss kind: "ode" (DataGeneratorODE + LossODE), "statio" (2-D CubicMeshPDEStatio + LossPDEStatio: the version is carried by a
    # Dirichlet boundary term on the four facets, border batch size = b as a parameter batch requires), "nonstatio" (1-D CubicMeshPDENonStatio, cartesian product, + LossPDENonStatio: a served row is the
    # pair (time id, point id) = id_t * npts + id_x)
    lkind = opt.get("lkind", "ode")
    ntp, bt = (opt.get("ntp", 2), opt.get("bt", 1)) if lkind == "nonstatio" else (1, 1)
    B = b * bt                                  # rows of one dynamic-loss batch (= required size of the auxiliary batches)
    nobs, bo = (opt.get("nobs", 4), b) if lkind != "nonstatio" else (npts * ntp, B)
    key = jax.random.PRNGKey(opt["seed"])
    if lkind == "ode":
        if opt.get("rar"):
            # the refinement option is switched on with a store that is already full (nt_start = nt): no point is ever added, but every
            # iteration goes through solve's refinement trigger (both branches traced, the "no step" branch taken)
            data = jinns.data.DataGeneratorODE(key, npts, 0.0, 1.0, b, method="grid", nt_start=npts,
                                               rar_parameters={"start_iter": 1, "update_every": 2, "sample_size_times": 2,
                                                               "selected_sample_size_times": 1})
        else:
            data = jinns.data.DataGeneratorODE(key, npts, 0.0, 1.0, b, method="grid")
        GT, GX = jnp.sort(data.times), None
    elif lkind == "statio":
        data = jinns.data.CubicMeshPDEStatio(key=key, n=npts, nb=4 * b, omega_batch_size=b, omega_border_batch_size=b, dim=2,
                                             min_pts=(0.0, 0.0), max_pts=(1.0, 1.0), method="uniform")
        GT, GX = None, jnp.asarray(data.omega)          # identity of a point = its row in the initial store
    else:
        data = jinns.data.CubicMeshPDENonStatio(key=key, n=npts, nb=None, nt=ntp, omega_batch_size=b, omega_border_batch_size=None,
                                                temporal_batch_size=bt, dim=1, min_pts=(0.0,), max_pts=(1.0,), tmin=0.0, tmax=1.0,
                                                method="grid", cartesian_product=True)
        GT, GX = jnp.sort(data.times), jnp.sort(data.omega[:, 0])
    GTn, GXn = (None if GT is None else np.asarray(GT)), (None if GX is None else np.asarray(GX))

    def near(G, v):
        return jnp.argmin(jnp.abs(G - v))

    def ident(z):       # identity of an input row of the network
        if lkind == "ode":
            return jnp.round(z[0] * npts).astype(int)        # grid times k / npts (the validation observations use k >= npts too)
        if lkind == "statio":
            return jnp.argmin(jnp.sum((GX - z[None, :]) ** 2, axis=1))
        return near(GT, z[0]) * npts + near(GX, z[1])

    def ids_rows(rows):     # numpy side: identities of input rows (t), (x) or (t, x)
        out = []
        for r in np.asarray(rows, dtype=np.float64).reshape(len(rows), -1):
            if lkind == "ode":
                out.append(int(round(float(r[0]) * npts)))
            elif lkind == "statio":
                out.append(int(np.argmin(np.sum((GXn - r[None, :]) ** 2, axis=1))))
            else:
                out.append(int(np.argmin(np.abs(GTn - r[0]))) * npts + int(np.argmin(np.abs(GXn - r[1]))))
        return sorted(out)

    def ids_of_batch(bt_):
        if lkind == "ode":
            return ids_rows(np.asarray(bt_.temporal_batch).reshape(-1, 1))
        if lkind == "statio":
            return ids_rows(bt_.inside_batch)
        return ids_rows(bt_.times_x_inside_batch)

    def gen_state(g):
        if lkind == "ode":
            return dict(cur=int(g.curr_time_idx), order=[int(round(float(t) * npts)) for t in np.asarray(g.times)])
        if lkind == "statio":
            return dict(cur=int(g.curr_omega_idx), order=[int(np.argmin(np.sum((GXn - x[None, :]) ** 2, axis=1))) for x in np.asarray(g.omega)])
        ox = [int(np.argmin(np.abs(GXn - float(x)))) for x in np.asarray(g.omega)[:, 0]]
        ot = [100 + int(np.argmin(np.abs(GTn - float(t)))) for t in np.asarray(g.times)]
        return dict(cur=int(g.curr_omega_idx) * 1000 + int(g.curr_time_idx), order=ox + ot)
    fault, origin = C["fault"], C["origin"]
    # partial: the trained leaves have TWO entries (both carry the version) and an injected gradient / update fault makes
    # only the second entry NaN - "a NaN parameter" is any NaN entry, not a leaf that is NaN throughout
    partial = bool(opt.get("partial"))
    POW4 = jnp.array([4.0 ** k for k in range(16)])

    class Net(eqx.Module):
        w: jax.Array

        def __call__(self, t):
            return jnp.stack([self.w[0], jnp.sqrt(POW4[ident(t)])])

    def make_poison(k):
        @jax.custom_vjp
        def poison(x, ver):
            return x

        def fwd(x, ver):
            return x, ver

        def bwd(ver, g):
            return (jnp.where(ver == k, jnp.nan, g), None)

        poison.defvjp(fwd, bwd)
        return poison

    poison = make_poison(fault)

    # bf16: the network leaf is stored in bfloat16 (legal; the small integers of the tagged arithmetic are exact in it)
    wdt = jnp.bfloat16 if opt.get("bf16") else None
    u = PINN(mlp=Net(jnp.array([W0, W0] if partial else [W0], dtype=wdt)), slice_solution=jnp.s_[:],
             eq_type={"ode": "ODE", "statio": "statio_PDE", "nonstatio": "nonstatio_PDE"}[lkind], input_transform=lambda i, p: i,
             output_transform=lambda i, o, p: o)

    class _Res:
        def residual(self, out, params):
            th = params.eq_params["theta"]
            th_rest = None
            if partial:
                th, th_rest = th[0], th[1]
            ver = jax.lax.stop_gradient(jnp.round(TH0 - th))
            w = out[0]
            r = out[1]  # 2^id(t)
            if origin == "loss":
                r = r + jnp.where(ver == fault, jnp.nan, 0.0)
            if origin == "grad_eq":
                if partial:
                    r = r + 0.0 * poison(th_rest, ver)          # only the gradient of theta[1] becomes NaN
                else:
                    th = poison(th, ver)
            if origin == "grad_nn":
                if partial:
                    r = r + 0.0 * poison(params.nn_params.w[1], ver)      # only the gradient of w[1] becomes NaN
                else:
                    w = poison(w, ver)
            nu = params.eq_params["nu"]  # optional batched parameter: 2^(8+k) or 0
            return jnp.stack([r + 0.0 * th + 0.0 * w, jnp.squeeze(nu) + 0.0 * r])

    if lkind == "ode":
        class Eq(_Res, ODE):
            def equation(self, t, u, params):
                return self.residual(u(t, params), params)
    elif lkind == "statio":
        class Eq(_Res, jinns.loss.PDEStatio):
            def equation(self, x, u, params):
                return self.residual(u(x, params), params)
    else:
        class Eq(_Res, jinns.loss.PDENonStatio):
            def equation(self, t, x, u, params):
                return self.residual(u(t, x, params), params)

    infleaf = bool(opt.get("infleaf"))
    extra = {"clip": jnp.array([-jnp.inf, jnp.inf])} if infleaf else {}        # an unused, NaN-free leaf holding both infinities (an inactive clipping interval)
    params = jinns.parameters.Params(nn_params=u.init_params(), eq_params=dict({"theta": jnp.array([TH0, TH0] if partial else TH0), "nu": jnp.array(0.0)}, **extra))
    # resumed runs start from a later version
    v0 = C.get("v0", 0)
    params = jax.tree.map(lambda x: x, params)
    params = eqx.tree_at(lambda p: (p.nn_params.w, p.eq_params["theta"]), params,
                         (jnp.array([W0 - v0] * (2 if partial else 1), dtype=wdt), jnp.array([TH0 - v0] * 2 if partial else TH0 - v0)))
    import warnings
    warnings.simplefilter("ignore")
    if lkind == "ode":
        dk = jinns.parameters.DerivativeKeysODE.from_str(params=params, dyn_loss="both", initial_condition="nn_params",
                                                         observations="nn_params")
        loss = jinns.loss.LossODE(u=u, dynamic_loss=Eq(Tmax=1), initial_condition=(0.0, jnp.array([W0 + 1.0, 1.0])),
                                  derivative_keys=dk, obs_slice=jnp.s_[1:2], params=params)
    elif lkind == "statio":
        # version term: Dirichlet condition on component 0, mean over the border batch of each of the four facets: 4 (v + 1)^2
        dk = jinns.parameters.DerivativeKeysPDEStatio.from_str(params=params, dyn_loss="both", boundary_loss="nn_params",
                                                               observations="nn_params")
        loss = jinns.loss.LossPDEStatio(u=u, dynamic_loss=Eq(Tmax=1), omega_boundary_fun=lambda dx: jnp.array([W0 + 1.0]),
                                        omega_boundary_condition="dirichlet", omega_boundary_dim=jnp.s_[0:1],
                                        derivative_keys=dk, obs_slice=jnp.s_[1:2], params=params)
    else:
        # version term: initial condition u(0, x) = (W0 + 1, 2^id(0, x)): (v + 1)^2
        dk = jinns.parameters.DerivativeKeysPDENonStatio.from_str(params=params, dyn_loss="both", initial_condition="nn_params",
                                                                  observations="nn_params")
        loss = jinns.loss.LossPDENonStatio(u=u, dynamic_loss=Eq(Tmax=1),
                                           initial_condition_fun=lambda x: jnp.stack([W0 + 1.0, jnp.sqrt(POW4[near(GX, x[0])])]),
                                           derivative_keys=dk, obs_slice=jnp.s_[1:2], params=params)

    aux = opt.get("aux", "none")
    param_data = obs_data = None
    if aux in ("param", "both"):
        # NOTE user_data is a *static* (metadata) field of DataGeneratorParameter: two generators holding different
        # array objects cannot be compared by jit's cache lookup (ValueError in JAX).  One table object per size is
        # shared by all scenarios of a worker process so that the comparison short-cuts on identity.
        npar = max(npts, B)
        tab = _TAB.setdefault(npar, jnp.array([2.0 ** (8 + k) for k in range(npar)]))
        param_data = jinns.data.DataGeneratorParameter(jax.random.PRNGKey(opt["seed"] + 1), npar, B, user_data={"nu": tab})
    if aux in ("obs", "both"):
        if lkind == "ode":
            pin = GT[:nobs][:, None]                # observed at the first nobs grid times / points: identities 0..nobs-1
        elif lkind == "statio":
            pin = GX[:nobs]
        else:
            pin = jnp.stack([jnp.repeat(GT, npts), jnp.tile(GX, ntp)], axis=1)      # every (time, point) pair: identities 0..ntp*npts-1
        obs_data = jinns.data.DataGeneratorObservations(jax.random.PRNGKey(opt["seed"] + 2), bo, pin, jnp.zeros((nobs, 1)))

    # ---- optimizer
    oname = opt.get("optimizer", "dec")
    if oname == "dec":
        def init(p):
            return jnp.array(C.get("o0", 0))

        def update(g, s, p=None):
            bad = (s == fault) if origin == "opt" else False

            def dec(x):   # -1 for every trained leaf; NaN gradients / the injected fault propagate
                hit = (jnp.arange(x.size).reshape(x.shape) == x.size - 1) if (partial and x.size > 1) else True
                return jnp.where(jnp.isnan(x), jnp.nan, -jnp.ones_like(x)) + jnp.where(bad & hit, jnp.nan, 0.0)

            upd = jax.tree.map(dec, g)
            upd = eqx.tree_at(lambda q: q.eq_params["nu"], upd, jnp.zeros_like(g.eq_params["nu"]))
            if infleaf:
                upd = eqx.tree_at(lambda q: q.eq_params["clip"], upd, jnp.zeros_like(g.eq_params["clip"]))
            return upd, s + 1

        optimizer = optax.GradientTransformation(init, update)
    elif oname == "sgd":
        optimizer = optax.sgd(0.125)
    elif oname == "adam":
        optimizer = optax.adam(0.125)
    else:
        optimizer = optax.chain(optax.scale_by_adam(), optax.scale_by_schedule(optax.linear_schedule(-0.25, -0.125, 4)))

    # ---- validation
    validation = None
    val_ref = None
    if C["vkind"] == "script":
        ncalls = C["n"] // max(1, C["ce"]) + 2
        im = [bool(e["improve"]) for e in C["script"]] + [False] * ncalls
        st = [bool(e["stop"]) for e in C["script"]] + [False] * ncalls

        class Scripted(AbstractValidationModule):
            call_every: int = eqx.field(kw_only=True, default=1, static=True)
            improve: jax.Array = eqx.field(kw_only=True)
            stop: jax.Array = eqx.field(kw_only=True)
            k: jax.Array = eqx.field(kw_only=True)

            def __call__(self, params):
                new = eqx.tree_at(lambda m: m.k, self, self.k + 1)
                # the criterion is a function of the WHOLE network leaf (a NaN entry makes it NaN)
                return new, self.stop[self.k], params.nn_params.w[0] + 0.0 * jnp.sum(params.nn_params.w), self.improve[self.k]

        validation = Scripted(call_every=C["ce"], improve=jnp.array(im), stop=jnp.array(st), k=jnp.array(0))
    elif C["vkind"] == "builtin":
        nv, bv = npts, opt.get("bval", 4)
        ranks = list(C["vals"])
        # batch tags break ties between equal ranks, so the real run may need more invocations than the abstract one
        # emitted by TLC: provide a value for every possible invocation (the monitor recomputes everything from them)
        ranks += [ranks[-1] if ranks else 1] * (C["n"] // max(1, C["ce"]) + 2 - len(ranks))
        table = np.zeros(64)
        for k, r in enumerate(ranks):  # invocation k+1 happens at iteration k*ce and sees version v0 + k*ce + 1
            table[v0 + k * C["ce"] + 1] = float(r)
        TABLE = jnp.asarray(table)

        uv = u    # the validation loss shares the network (same parameter structure)

        class EqV(ODE):
            def equation(self, t, u, params):
                out = u(t, params)
                w = out[0]
                ver = jnp.round(W0 - jnp.where(jnp.isnan(w), 0.0, w)).astype(int)
                q = TABLE[ver] + 0.0 * w + 0.0 * jnp.sum(params.nn_params.w)            # NaN network parameters (any entry) -> NaN criterion
                # residual components: batch tag 2^id, q * 2^12 and the validation parameter sample 3 * 2^k (0 without a
                # validation parameter generator)  (squares: 4^id, q^2 * 4^12, 9 * 4^k)
                return jnp.stack([out[1], q * 4096.0, jnp.squeeze(params.eq_params["nu"]) + 0.0 * w])

        vloss = jinns.loss.LossODE(u=uv, dynamic_loss=EqV(Tmax=1), initial_condition=None, obs_slice=jnp.s_[1:2], params=params)
        vdata = jinns.data.DataGeneratorODE(jax.random.PRNGKey(opt["seed"] + 3), nv, 0.0, 1.0, bv, method="grid")
        vobs = None
        if opt.get("vobs"):
            pinv = ((6 + jnp.arange(nv)) / nv)[:, None]   # observation rows are tagged 4^(6+i)
            vobs = jinns.data.DataGeneratorObservations(jax.random.PRNGKey(opt["seed"] + 4), bv, pinv, jnp.zeros((nv, 1)))
        vpar = None
        if opt.get("vparam"):
            vtab = _TAB.setdefault(("v", nv), jnp.array([3.0 * 2.0 ** k for k in range(nv)]))       # squares 9 * 4^k: the composite criterion stays below 2^31 (TLC integers)
            vpar = jinns.data.DataGeneratorParameter(jax.random.PRNGKey(opt["seed"] + 5), nv, bv, user_data={"nu": vtab})
        validation = ValidationLoss(loss=vloss, validation_data=vdata, validation_param_data=vpar, validation_obs_data=vobs, call_every=C["ce"],
                                    early_stopping=bool(C["earlyOn"]), patience=C["patience"])
        # reference: what the k-th invocation's criterion must be (composite integer, times bv)
        val_ref = []
        g, go, gp = vdata, vobs, vpar
        for k, r in enumerate(ranks):
            g, bt = g.get_batch()
            m = sum(4 ** i for i in _ids_of_times(bt.temporal_batch, nv))
            if gp is not None:
                gp, pb = gp.get_batch()
                m += sum(int(round(float(v))) ** 2 for v in np.asarray(pb["nu"]).ravel())
            if go is not None:
                go, ob = go.get_batch()
                m += sum(4 ** i for i in _ids_of_times(ob["pinn_in"], nv))
            val_ref.append(int(r) ** 2 * (4 ** 12) * bv + m)
    tracked = opt.get("tracked", "eq")
    tp = None
    if tracked != "none":
        tp = jinns.parameters.Params(nn_params=jax.tree.map(lambda _: True, params.nn_params) if tracked in ("nn", "both") else None,
                                     eq_params=dict({"theta": True if tracked in ("eq", "both") else None, "nu": None}, **({"clip": None} if infleaf else {})))

    # obs_batch_sharding selects the OTHER implementation of the loop (plain Python while, non-jitted get_batch with device_put)
    shard = jax.sharding.SingleDeviceSharding(jax.devices()[0]) if (opt.get("shard") and obs_data is not None) else None

    def run(n_iter, data=data, params=params, opt_state=None, param_data=param_data, obs_data=obs_data, validation=validation):
        return jinns.solve(n_iter=n_iter, init_params=params, data=data, loss=loss, optimizer=optimizer, opt_state=opt_state,
                           tracked_params=tp, param_data=param_data, obs_data=obs_data, validation=validation, verbose=bool(opt.get("verbose")),
                           obs_batch_sharding=shard)

    return dict(run=run, data=data, param_data=param_data, obs_data=obs_data, params=params, val_ref=val_ref, npts=npts, b=b, B=B, bo=bo,
                nobs=nobs, nv=npts, bv=opt.get("bval", 4), oname=oname, lkind=lkind, ids_of_batch=ids_of_batch, ids_rows=ids_rows,
                gen_state=gen_state)


def reference_draws(P, count, data=None):
    """ids served by the generators when get_batch is called `count` times outside solve, and the
    state (cursor, order) of the main generator after each of these draws"""
    out, states = [], []
    g, gp, go = (P["data"] if data is None else data), P["param_data"], P["obs_data"]
    for _ in range(count):
        g, bt = g.get_batch()
        d = dict(t=P["ids_of_batch"](bt), p=[], o=[])
        if gp is not None:
            gp, pb = gp.get_batch()
            d["p"] = sorted(int(round(math.log2(float(v)))) - 8 for v in np.asarray(pb["nu"]).ravel())
        if go is not None:
            go, ob = go.get_batch()
            d["o"] = P["ids_rows"](ob["pinn_in"])
        out.append(d)
        states.append(P["gen_state"](g))
    return out, states


def _opt_count(opt_state):
    """number of updates recorded inside an optax state (adam / schedule counters), or None"""
    import jax

    counts = [int(x) for pth, x in jax.tree_util.tree_leaves_with_path(opt_state)
              if "count" in jax.tree_util.keystr(pth)]
    return counts


def project(P, C, out, n):
    params, total, terms, gen, _loss, opt_state, stored, crit, best = out
    b, npts = P["b"], P["npts"]
    decoded = P["oname"] == "dec"
    obs = dict(ok=True)
    total = np.asarray(total, dtype=np.float64)
    dyn = np.asarray(terms["dyn_loss"], dtype=np.float64)
    lk = P.get("lkind", "ode")
    # the term that carries the parameter version: initial condition (v+1)^2, or - stationary - the Dirichlet term 4 (v+1)^2
    vname, vscale = ("boundary_loss", 4.0) if lk == "statio" else ("initial_condition", 1.0)
    ic = np.asarray(terms[vname], dtype=np.float64) / vscale
    ob = np.asarray(terms["observations"], dtype=np.float64)
    allterms = {k_: np.asarray(v_, dtype=np.float64) for k_, v_ in terms.items()}
    tsum = sum(allterms.values())
    obs["len_ok"] = bool(len(total) == n and all(len(v_) == n for v_ in allterms.values()))
    B, bo = P.get("B", b), P.get("bo", b)
    hist = []
    for k in range(len(total)):
        if total[k] == 0.0 and all(v_[k] == 0.0 for v_ in allterms.values()):
            hist.append(dict(ver=UNTOUCHED, t=[], p=[], o=[], nan=False, sum_ok=True))
            continue
        if math.isnan(dyn[k]):
            v = NAN if math.isnan(ic[k]) else int(round(math.sqrt(ic[k]))) - 1
            hist.append(dict(ver=v if decoded else 0, t=[], p=[], o=[], nan=True, sum_ok=bool(math.isnan(total[k]))))
            continue
        r = math.sqrt(ic[k])
        ver = (int(r) - 1 if r == int(r) else BAD) if decoded else 0
        m = _dec_mask(dyn[k], B, 16)
        mo = _dec_mask(ob[k], bo, 8)
        if m is None or mo is None:
            hist.append(dict(ver=BAD, t=[], p=[], o=[], nan=False, sum_ok=False))
            continue
        hist.append(dict(ver=ver, t=[i for i in m if i < 8], p=[i - 8 for i in m if i >= 8], o=mo, nan=False,
                         sum_ok=bool(total[k] == tsum[k]) if decoded else bool(abs(total[k] - tsum[k]) <= 1e-9 * abs(total[k]))))
    obs["hist"] = hist
    vw, vt = _dec_all(params.nn_params.w, W0), _dec_all(params.eq_params["theta"], TH0)
    obs["params"] = (vw if vw == vt else BAD) if decoded else 0
    obs["params_nan_free"] = not (bool(np.isnan(np.asarray(params.nn_params.w)).any()) or bool(np.isnan(np.asarray(params.eq_params["theta"])).any()))
    if decoded:
        obs["opt"] = int(opt_state)
    else:
        cnt = _opt_count(opt_state)
        obs["opt"] = (cnt[0] if cnt and all(c == cnt[0] for c in cnt) else (-9 if not cnt else BAD))
    obs["tracked_nn"], obs["tracked_eq"] = [], []
    if stored is not None and decoded:
        if stored.eq_params is not None and stored.eq_params.get("theta") is not None:
            obs["tracked_eq"] = [_dec_all(x, TH0) for x in np.asarray(stored.eq_params["theta"])]
        if stored.nn_params is not None and getattr(stored.nn_params, "w", None) is not None:
            obs["tracked_nn"] = [_dec_all(x, W0) for x in np.asarray(stored.nn_params.w)]
    if crit is None:
        obs["crit"] = []
        obs["best_nn"] = obs["best_eq"] = NAN
        obs["has_val"] = False
    else:
        obs["has_val"] = True
        cv = np.asarray(crit, dtype=np.float64)
        if C["vkind"] == "script":
            obs["crit"] = [_dec_version(x, W0) for x in cv]
        else:
            obs["crit"] = [NAN if math.isnan(x) else (UNTOUCHED if x == 0.0 else (int(x * P["bv"]) if (x * P["bv"]) == int(x * P["bv"]) else BAD)) for x in cv]
        obs["best_nn"], obs["best_eq"] = _dec_all(best.nn_params.w, W0), _dec_all(best.eq_params["theta"], TH0)
    gs = P["gen_state"](gen)
    obs["gen_cur"], obs["gen_order"] = gs["cur"], gs["order"]
    return obs


def run_case(case):
    """an exception raised inside jinns while solve runs is a datum (codeexc), an exception of the harness is a driver crash"""
    import os
    import traceback

    try:
        return _run_case(case)
    except Exception as ex:  # noqa
        frames = traceback.extract_tb(ex.__traceback__)
        inside = [f for f in frames if os.sep + "jinns" + os.sep in f.filename and "/verif/" not in f.filename]
        if not inside or "/verif/" in frames[-1].filename:
            raise
        return dict(case=case, codeexc=f"{type(ex).__name__} at {os.path.basename(inside[-1].filename)}:{inside[-1].lineno}: {str(ex)[:160]}")


def _run_case(case):
    """case: dict(C=scenario from TLC, opt=driver options [, resume=n1])  ->  record(s) for Trace_Solve"""
    C, opt = dict(case["C"]), case["opt"]
    n = C["n"]
    if case.get("resume") is not None:
        n1 = case["resume"]
        C1 = dict(C, n=n1, v0=0, o0=0)
        P = build(C1, opt)
        out1 = P["run"](n1)
        # second run: resumed from the returned parameters, optimizer state and generator
        C2 = dict(C, v0=n1, o0=n1)
        out = P["run"](n, data=out1[3], params=out1[0], opt_state=out1[5])
        obs = project(P, C2, out, n)
        refs, states = reference_draws(P, n + 1, data=out1[3])
        Cx = C2
    else:
        P = build(C, opt)
        out = P["run"](n)
        obs = project(P, C, out, n)
        refs, states = reference_draws(P, n + 1)
        Cx = dict(C)
        if C["vkind"] == "builtin":
            Cx["vals"] = P["val_ref"]
    return dict(case=case, C=Cx, obs=obs, draws=refs, genstates=states, decoded=(P["oname"] == "dec"))
