"""bin/check Cxx --replay <file>: re-executes the failing configuration of a replay file against the
current /repo (when the stored configuration is directly executable) and validates the result - or,
failing that, the stored record - with the monitor of its family.  Prints the verdict."""
from __future__ import annotations

import json

from . import core, tracecheck
from .checks import _dg, _func, _rar, _solve
from .checks import c20 as _c20

MON = {
    "harness.drv_datagen:run_case": ("Trace_DataGen", lambda pid: _dg.TRACE_CFG % pid, True),
    "harness.drv_rar:run_case": ("Trace_Rar", lambda pid: _rar.TRACE_CFG % pid, False),
    "harness.drv_solve:run_case": ("Trace_Solve", lambda pid: _solve.TRACE_CFG, True),
    "harness.drv_func:run_case": ("Trace_Func", lambda pid: _func.TRACE_CFG, True),
    "harness.drv_purity:run_case": ("Trace_Purity", lambda pid: _c20.TRACE_CFG, True),
}


def replay(pid, path):
    d = json.load(open(path))
    drv = d.get("driver")
    if drv not in MON:
        raise core.MachineryError(f"replay file has no known driver: {drv}")
    module, cfgf, x64 = MON[drv]
    sc = core.Scratch("replay")
    try:
        rec = None
        cfg = d.get("cfg")
        runnable = isinstance(cfg, dict) and cfg.get("src") != "repo_tests" and not (drv.endswith("drv_func:run_case") and cfg.get("kind") in ("grad",))
        if runnable:
            out = core.run_drivers(drv, [cfg], x64=(x64 and not drv.endswith("drv_datagen:run_case")))[0]
            if "tb" in out:
                raise core.MachineryError("driver crashed: " + out["tb"])
            rec = out["_many"][0] if isinstance(out, dict) and "_many" in out else out
            src = "re-executed against the current tree"
        else:
            rec = d["record"]
            src = "stored record (not re-executed)"
        if drv.endswith("drv_solve:run_case"):
            rec = dict(C=rec["C"], obs=rec["obs"], draws=rec["draws"], genstates=rec.get("genstates", []), decoded=rec.get("decoded", True))
        if drv.endswith("drv_purity:run_case"):
            rec = dict(ev=rec["ev"])
        rec = {k: v for k, v in rec.items() if k != "cfg"} if isinstance(rec, dict) else rec
        rej, acc, _ = tracecheck.validate(module, cfgf(pid), [rec], sc, "replay")
        if rej:
            print(f"VIOLATION property={pid} replay={path}  clause={rej[0]['clause']} ({src})")
            return 1
        print(f"replay of {path}: accepted ({src})")
        return 0
    finally:
        sc.cleanup()
