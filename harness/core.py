"""
Common machinery of the jinns TLA+ verification framework.

  * run TLC (model checking / trace validation) and parse what it prints
  * run implementation drivers in a pool of worker processes
  * classify violations against /verif/known_findings.json
  * write /verif/evidence/<id>.json

Everything persistent lives under /verif; scratch files live in a mkdtemp directory that is
removed at the end of a run.
"""

from __future__ import annotations

import concurrent.futures as cf
import importlib
import json
import multiprocessing as mp
import os
import re
import shutil
import subprocess
import sys
import tempfile
import time

VERIF = os.path.dirname(os.path.dirname(os.path.abspath(__file__)))
SPEC = os.path.join(VERIF, "spec")
EVID = os.environ.get("VERIF_EVIDENCE_DIR") or os.path.join(VERIF, "evidence")
REPLAY = os.path.join(EVID, "replay")
REPO = os.environ.get("JINNS_REPO", "/repo")
NCPU = int(os.environ.get("VERIF_WORKERS", str(os.cpu_count() or 4)))
GUARD = "JINNS_VERIF"


class MachineryError(Exception):
    """Raised when the framework itself fails (exit code 2, never a VIOLATION)."""


# ----------------------------------------------------------------------------------------
# scratch


class Scratch:
    def __init__(self, tag):
        base = os.environ.get("VERIF_SCRATCH_BASE") or tempfile.gettempdir()
        self.dir = tempfile.mkdtemp(prefix=f"jv_{tag}_", dir=base)

    def path(self, *p):
        return os.path.join(self.dir, *p)

    def cleanup(self):
        if os.environ.get("VERIF_KEEP_SCRATCH"):
            print(f"[scratch kept: {self.dir}]")
            return
        shutil.rmtree(self.dir, ignore_errors=True)


# ----------------------------------------------------------------------------------------
# TLC


class TlcResult:
    def __init__(self):
        self.rc = None
        self.out = ""
        self.generated = 0
        self.distinct = 0
        self.depth = 0
        self.prints = []  # decoded JSON values printed with PrintT(ToJson(..))
        self.raw_prints = []
        self.errors = []  # TLC error / violation headlines
        self.coverage = {}  # action name -> (distinct, total)
        self.wall = 0.0
        self.cmd = ""

    @property
    def ok(self):
        return self.rc == 0 and not self.errors


_RE_STATES = re.compile(r"(\d+) states generated, (\d+) distinct states found")
_RE_DEPTH = re.compile(r"The depth of the complete state graph search is (\d+)")
_RE_COV = re.compile(r"^<(\w+) line (\d+), col \d+ to line \d+, col \d+ of module (\w+)>: (\d+):(\d+)")
_RE_ERR = re.compile(
    r"^(Error: .*|Invariant .* is violated.*|Action property .* is violated.*|"
    r"Temporal properties were violated.*|.*Assumption .* is false.*)"
)


def write_cfg(path, text):
    with open(path, "w") as f:
        f.write(text)


def run_tlc(
    module,
    cfg_text,
    scratch,
    *,
    workers=1,
    env=None,
    timeout=1800,
    simulate=None,
    depth=None,
    coverage=False,
    deadlock=False,
    seed=None,
    tag=None,
    dfs=False,
):
    """Run TLC on /verif/spec/<module>.tla with the given cfg text.

    The module is run from a private copy of the spec directory inside the scratch dir so that
    TLC's states/ metadata never lands in /verif.
    """
    tag = tag or module
    work = scratch.path(f"tlc_{tag}")
    os.makedirs(work, exist_ok=True)
    specdir = os.path.join(work, "spec")
    if not os.path.isdir(specdir):
        shutil.copytree(SPEC, specdir)
    cfg = os.path.join(specdir, f"{tag}.cfg")
    write_cfg(cfg, cfg_text)
    cmd = [
        "java",
        "-XX:+UseParallelGC",
        "-Xss64m",
        "-Xmx8g",
    ]
    if dfs:
        cmd.append("-Dtlc2.tool.queue.IStateQueue=StateDeque")
    cmd += [
        "-cp",
        "/opt/veriftools/tla/tla2tools.jar:/opt/veriftools/tla/CommunityModules-deps.jar",
        "tlc2.TLC",
        "-workers",
        str(workers),
        "-metadir",
        os.path.join(work, "meta"),
        "-noGenerateSpecTE",
        "-config",
        cfg,
    ]
    if not deadlock:
        cmd.append("-deadlock")  # -deadlock == do NOT check for deadlock
    if coverage:
        cmd += ["-coverage", "1"]
    if simulate:
        cmd += ["-simulate", simulate]
    if depth:
        cmd += ["-depth", str(depth)]
    if seed is not None:
        cmd += ["-seed", str(seed)]
    cmd.append(os.path.join(specdir, f"{module}.tla"))
    e = dict(os.environ)
    e.update(env or {})
    t0 = time.time()
    try:
        p = subprocess.run(
            cmd, cwd=specdir, env=e, capture_output=True, text=True, timeout=timeout
        )
    except subprocess.TimeoutExpired as ex:
        raise MachineryError(f"TLC timeout after {timeout}s on {module}/{tag}") from ex
    r = TlcResult()
    r.cmd = " ".join(cmd)
    r.wall = time.time() - t0
    r.rc = p.returncode
    r.out = p.stdout + ("\n" + p.stderr if p.stderr.strip() else "")
    for line in p.stdout.splitlines():
        m = _RE_STATES.search(line)
        if m:
            r.generated, r.distinct = int(m.group(1)), int(m.group(2))
        m = _RE_DEPTH.search(line)
        if m:
            r.depth = int(m.group(1))
        m = _RE_COV.match(line)
        if m:
            r.coverage[m.group(1)] = (int(m.group(4)), int(m.group(5)))
        if _RE_ERR.match(line):
            r.errors.append(line.strip())
        s = line.strip()
        if s.startswith('"') and s.endswith('"') and len(s) >= 2:
            try:
                inner = json.loads(s)
            except Exception:
                continue
            r.raw_prints.append(inner)
            try:
                r.prints.append(json.loads(inner))
            except Exception:
                pass
    with open(os.path.join(work, "out.txt"), "w") as f:
        f.write(r.out)
    return r


def tlc_must_pass(r, what, dead_ok=()):
    """A model-checking run of the property-conforming spec must finish cleanly; anything else
    is a failure of the machinery (the spec itself is wrong), not a violation by jinns."""
    if r.rc != 0 or r.errors:
        tail = "\n".join(r.out.splitlines()[-40:])
        raise MachineryError(f"TLC run '{what}' failed (rc={r.rc}): {r.errors[:3]}\n{tail}")
    # vacuity guard (runs made with -coverage): every named action of the model must have been taken at least once
    dead = [a for a, (dist, tot) in r.coverage.items() if a != "Init" and tot == 0 and a not in dead_ok]
    if dead:
        raise MachineryError(f"TLC run '{what}': action(s) {dead} were never taken within the bounds (vacuous model)")


def tlc_must_fail(r, what, needle):
    """Regression witness: a 'code as found' variant must violate the named property."""
    if not any(needle in e for e in r.errors):
        tail = "\n".join(r.out.splitlines()[-30:])
        raise MachineryError(
            f"TLC run '{what}' was expected to violate {needle} but did not (rc={r.rc})\n{tail}"
        )


# ----------------------------------------------------------------------------------------
# driver pool


def _worker_init(repo, x64, guard):
    os.environ.setdefault("JAX_PLATFORMS", "cpu")
    os.environ["XLA_FLAGS"] = (
        os.environ.get("XLA_FLAGS", "")
        + " --xla_cpu_multi_thread_eigen=false intra_op_parallelism_threads=1"
    )
    os.environ["OMP_NUM_THREADS"] = "1"
    if guard:
        os.environ[GUARD] = "1"
    import warnings

    warnings.filterwarnings("ignore")
    if repo not in sys.path:
        sys.path.insert(0, repo)
    if VERIF not in sys.path:
        sys.path.insert(0, VERIF)
    if os.environ.get("VERIF_COVERAGE_DIR"):
        # diagnostic only (bin/coverage_report): which lines of jinns do the drivers of a check execute (tracing included)
        import atexit
        import coverage

        cov = coverage.Coverage(data_file=os.path.join(os.environ["VERIF_COVERAGE_DIR"], "cov"), data_suffix=True,
                                include=[os.path.join(repo, "jinns", "*")])
        cov.start()

        done = []

        def _save():
            if not done:
                done.append(1)
                cov.stop()
                cov.save()
        atexit.register(_save)
        import multiprocessing.util as mpu      # multiprocessing children leave through os._exit: atexit alone does not run

        mpu.Finalize(None, _save, exitpriority=0)
    import jax

    jax.config.update("jax_enable_x64", bool(x64))


def _worker_call(fn_path, cfg):
    mod, fn = fn_path.split(":")
    f = getattr(importlib.import_module(mod), fn)
    try:
        return f(cfg)
    except Exception as ex:  # a driver must never die: the exception is a datum
        import traceback

        return {
            "cfg": cfg,
            "exc": type(ex).__name__,
            "msg": str(ex)[:300],
            "tb": traceback.format_exc()[-1500:],
        }


def run_drivers(fn_path, cfgs, *, x64=False, guard=True, workers=None, chunk=1):
    """Run fn_path(cfg) for every cfg in a pool of fresh python processes importing jinns
    from REPO's working tree.  Results come back in input order."""
    workers = min(workers or NCPU, max(1, len(cfgs)))
    ctx = mp.get_context("spawn")
    res = [None] * len(cfgs)
    with cf.ProcessPoolExecutor(
        max_workers=workers,
        mp_context=ctx,
        initializer=_worker_init,
        initargs=(REPO, x64, guard),
    ) as ex:
        futs = {ex.submit(_worker_call, fn_path, c): k for k, c in enumerate(cfgs)}
        for fu in cf.as_completed(futs):
            res[futs[fu]] = fu.result()
    return res


def repo_is_importable():
    """Sanity: drivers must import jinns from REPO, not from elsewhere."""
    code = (
        "import sys,warnings;warnings.filterwarnings('ignore');sys.path.insert(0,%r);"
        "import jinns,os;print(os.path.dirname(os.path.abspath(jinns.__file__)))" % REPO
    )
    p = subprocess.run([sys.executable, "-W", "ignore", "-c", code], capture_output=True, text=True)
    got = p.stdout.strip().splitlines()[-1] if p.stdout.strip() else ""
    if os.path.realpath(got) != os.path.realpath(os.path.join(REPO, "jinns")):
        raise MachineryError(f"jinns imported from {got!r}, expected {REPO}/jinns\n{p.stderr[-500:]}")


# ----------------------------------------------------------------------------------------
# findings


def load_known():
    p = os.path.join(VERIF, "known_findings.json")
    if not os.path.exists(p):
        return []
    with open(p) as f:
        return json.load(f).get("findings", [])


def _match(where, sig):
    for k, v in where.items():
        if k not in sig:
            return False
        if isinstance(v, list):
            if sig[k] not in v:
                return False
        elif sig[k] != v:
            return False
    return True


def classify(pid, violations):
    """violations: list of dicts {clause, sig (flat dict), detail, record}.
    Returns (new, known) where known maps finding id -> (finding, count)."""
    known = [k for k in load_known() if k["property"] == pid and k.get("status", "open") == "open"]
    new, hit = [], {}
    for v in violations:
        for k in known:
            if k["clause"] == v["clause"] and _match(k.get("where", {}), v["sig"]):
                hit.setdefault(k["id"], [k, 0])[1] += 1
                break
        else:
            new.append(v)
    return new, hit


def report(pid, violations, max_print=12):
    """Prints KNOWN-FINDING / VIOLATION lines, writes replay files, returns exit code."""
    new, hit = classify(pid, violations)
    for fid, (k, cnt) in sorted(hit.items()):
        print(f"KNOWN-FINDING: property={pid} {k['what']} [{fid}; {cnt} case(s) this run]")
    if not new:
        return 0, len(new), sum(c for _, c in hit.values())
    os.makedirs(REPLAY, exist_ok=True)
    for n, v in enumerate(new):
        if n >= max_print:
            print(f"... {len(new) - max_print} more violation(s) of {pid} not printed")
            break
        path = os.path.join(REPLAY, f"{pid}_{n:03d}.json")
        with open(path, "w") as f:
            json.dump(
                {
                    "property": pid,
                    "clause": v["clause"],
                    "sig": v["sig"],
                    "detail": v.get("detail"),
                    "driver": v.get("driver"),
                    "cfg": v.get("cfg"),
                    "record": v.get("record"),
                },
                f,
                indent=1,
                default=str,
            )
        print(f"VIOLATION property={pid} replay={path}  clause={v['clause']} sig={json.dumps(v['sig'], sort_keys=True)}")
    return 1, len(new), sum(c for _, c in hit.values())


# ----------------------------------------------------------------------------------------
# evidence


def write_evidence(pid, tier, seed, level, coverage, assumptions, wall_s, violations):
    os.makedirs(EVID, exist_ok=True)
    doc = {
        "property_id": pid,
        "tier": tier,
        "seed": int(seed),
        "level": level,
        "coverage": coverage,
        "assumptions": assumptions,
        "wall_s": round(float(wall_s), 2),
        "violations": int(violations),
    }
    with open(os.path.join(EVID, f"{pid}.json"), "w") as f:
        json.dump(doc, f, indent=1, default=str)
    return doc


def clip(obj, n=1200):
    s = json.dumps(obj, default=str)
    return obj if len(s) <= n else json.loads(json.dumps(s[:n] + "...<clipped>"))


def run_apalache(module, obligations, scratch, timeout=600):
    """Discharges inductive-invariant obligations with Apalache on /verif/spec/<module>.tla.
    obligations: list of (name, init, inv, length).  Returns the number discharged; raises MachineryError otherwise."""
    work = scratch.path("apalache")
    os.makedirs(work, exist_ok=True)
    specdir = os.path.join(work, "spec")
    if not os.path.isdir(specdir):
        shutil.copytree(SPEC, specdir)
    done = 0
    for name, init, inv, length in obligations:
        cmd = ["apalache-mc", "check", f"--init={init}", f"--inv={inv}", f"--length={length}", f"--out-dir={os.path.join(work, 'out')}",
               os.path.join(specdir, f"{module}.tla")]
        try:
            p = subprocess.run(cmd, cwd=specdir, capture_output=True, text=True, timeout=timeout)
        except subprocess.TimeoutExpired as ex:
            raise MachineryError(f"Apalache timeout on obligation {name}") from ex
        if "EXITCODE: OK" not in p.stdout or "NoError" not in p.stdout:
            raise MachineryError(f"Apalache did not discharge obligation {name}:\n" + p.stdout[-800:])
        done += 1
    return done
