"""Trace validation helper: a list of traces/records -> one TLC run of a monitor spec."""
from __future__ import annotations

import json
import os

from . import core


def validate(module, cfg_text, traces, scratch, tag, *, env=None, timeout=3600, chunk=None):
    """Writes traces to a JSON file, runs the monitor spec on it (single worker), returns
    (rejects, accepted_count, TlcResult list).  rejects: list of dict(tid(0-based), ev, clause)."""
    rejects, accepted, results = [], 0, []
    if not traces:
        return rejects, accepted, results
    chunk = chunk or len(traces)
    # records that belong together (twin groups of the oracle lemmas: equal, contiguous "group") are never split
    starts, c0 = [], 0
    while c0 < len(traces):
        c1 = min(len(traces), c0 + chunk)
        while 0 < c1 < len(traces) and isinstance(traces[c1], dict) and traces[c1].get("group") is not None \
                and isinstance(traces[c1 - 1], dict) and traces[c1 - 1].get("group") == traces[c1].get("group"):
            c1 += 1
        starts.append((c0, c1))
        c0 = c1
    for c0, c1 in starts:
        part = traces[c0:c1]
        path = scratch.path(f"{tag}_{c0}.json")
        with open(path, "w") as f:
            json.dump(part, f)
        e = {"TRACE_FILE": path}
        e.update(env or {})
        r = core.run_tlc(module, cfg_text, scratch, workers=1, env=e, timeout=timeout, tag=f"{tag}_{c0}")
        results.append(r)
        if r.rc != 0 or r.errors:
            tail = "\n".join(r.out.splitlines()[-40:])
            raise core.MachineryError(f"trace validation run {tag} failed (rc={r.rc}) {r.errors[:3]}\n{tail}")
        acc = [p for p in r.prints if isinstance(p, dict) and p.get("tag") == "ACCEPTED"]
        if not acc or acc[-1]["total"] != len(part):
            raise core.MachineryError(f"trace validation run {tag}: no ACCEPTED summary / wrong total")
        rej = [p for p in r.prints if isinstance(p, dict) and p.get("tag") == "REJECT"]
        seen = set()
        for p in rej:
            if p["tid"] in seen:
                continue
            seen.add(p["tid"])
            rejects.append(dict(tid=c0 + p["tid"] - 1, ev=p["ev"], clause=p["clause"]))
        if acc[-1]["n"] + len(seen) != len(part):
            raise core.MachineryError(
                f"trace validation run {tag}: accepted {acc[-1]['n']} + rejected {len(seen)} != {len(part)} traces"
            )
        accepted += acc[-1]["n"]
    return rejects, accepted, results


def selftest(module, cfg_text, corrupted, scratch, tag, env=None):
    """Binding self-test: every deliberately corrupted record/trace must be REJECTED by the monitor (with the expected
    clause when one is given).  corrupted: list of (record, expected_clause_or_None, description)."""
    import copy

    if not corrupted:
        return 0
    recs = [copy.deepcopy(c[0]) for c in corrupted]
    rej, acc, _ = validate(module, cfg_text, recs, scratch, tag + "_selftest", env=env)
    got = {r["tid"]: r["clause"] for r in rej}
    for k, (_, want, what) in enumerate(corrupted):
        if k not in got:
            raise core.MachineryError(f"binding self-test failed: the monitor {module} ACCEPTED a corrupted record ({what})")
        if want is not None and got[k] != want:
            raise core.MachineryError(f"binding self-test: corrupted record ({what}) rejected with {got[k]}, expected {want}")
    return len(corrupted)
