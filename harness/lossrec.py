"""Build full loss records (the numeric content: polynomial networks, residual maps, integer
batches, tables) from the STRUCTURAL configurations enumerated by TLC, deterministically from
VERIF_SEED.  The record is exactly what the implementation receives and what LossSemantics.tla
recomputes the expected value from."""
from __future__ import annotations

import random

NAMES = ["dyn_loss", "initial_condition", "norm_loss", "boundary_loss", "observations"]


def rpoly(rng, nv, nterms, deg, cmax=2, must=None):
    out = []
    for k in range(nterms):
        e = [0] * nv
        for _ in range(rng.randint(0 if must is None or k else 1, deg)):
            e[rng.randrange(nv)] += 1
        if must is not None and k == 0 and e[must] == 0:
            e = [0] * nv
            e[must] = 1
        out.append(dict(c=rng.choice([c for c in range(-cmax, cmax + 1) if c]), e=e))
    return out


def rpoint(rng, nin, has_t, lo=-2, hi=2):
    return [rng.randint(0, 2) if (has_t and i == 0) else rng.randint(lo, hi) for i in range(nin)]


def base_record(rng, lkind, dim, nout=1, ot="none", npar=2, nres=1):
    has_t = lkind != "statio"
    nin = dim + (1 if has_t else 0)
    V = [rpoly(rng, nin, rng.randint(2, 3), 2, must=(k % nin)) for k in range(nout)]
    th = [rng.choice([-2, -1, 2, 3]) for _ in range(npar)]
    nv = nin + nout + npar
    R = [rpoly(rng, nv, rng.randint(2, 3), 2, must=nin + (c % nout)) for c in range(nres)]
    return dict(kind="loss", lkind=lkind, dim=dim, V=V, ot=ot, sol=[1, nout], th=th, ptab=[[] for _ in th], R=R,
                w=dict(dyn=[1], ic=[1], norm=[1], bnd=[1], obs=[1]), inside=[], border=[],
                ic=dict(on=False, t0=0, u0=[]), norm=dict(on=False, samples=[], L=1), bnd=[],
                obsd=dict(on=False, **{"in": []}, val=[], slice=[1, nout], etab=[[] for _ in th]),
                het=[[] for _ in th], hetmode="none", pshape="scalar",
                bndform="global", gret="array", check=["sum", "dyn", "ic", "norm", "bnd", "obs"], src="tlc")


def set_inside(rec, rng, b):
    has_t = rec["lkind"] != "statio"
    nin = rec["dim"] + (1 if has_t else 0)
    rows = []
    tries = 0
    while len(rows) < b:
        p = [rng.randint(-3, 4)] if rec["lkind"] == "ode" else rpoint(rng, nin, has_t)
        tries += 1
        if p not in rows or tries > 60:      # distinct rows when the lattice allows it
            rows.append(p)
    rec["inside"] = rows
    return rec


def set_border(rec, rng, nb, nt=1):
    """facet rows: facet f pins coordinate f//2 at its min (-2) or max (2); with time: nt times x nb points"""
    dim = rec["dim"]
    has_t = rec["lkind"] != "statio"
    border = []
    times = [rng.randint(0, 2) for _ in range(nt)] if has_t else [None]
    if has_t:
        times = list(dict.fromkeys(times + [0, 1, 2]))[:nt]
    own_times = has_t and rng.random() < 0.5      # a hand-built batch may carry its OWN time stamps on every facet (the generators repeat them)
    for f in range(2 * dim):
        if own_times and f:
            times = [rng.randint(0, 2) for _ in range(nt)]
            times = list(dict.fromkeys(times + [(times[0] + 1 + k) % 3 for k in range(3)]))[:nt]
        pts = []
        for _ in range(nb if (dim > 1 or rec.get("rep1d")) else 1):
            x = [rng.randint(-1, 1) for _ in range(dim)]
            x[f // 2] = -2 if f % 2 == 0 else 2
            pts.append(x)
        rows = []
        for t in times:
            for x in pts:
                rows.append(([t] if has_t else []) + x)
        border.append(rows)
    rec["border"] = border
    return rec


# ------------------------------------------------------------------------------------------
# expansion of the structural configurations emitted by spec/MC_Loss.tla


def _key(struct, drop=()):
    return repr(sorted((k, repr(v)) for k, v in struct.items() if k not in drop))


def _rng(seed, struct, drop=()):
    return random.Random(f"{seed}|{_key(struct, drop)}")


def _quad_net(rng, nin, has_t, nout):
    """polynomial outputs whose normal derivatives differ in sign and size on every facet"""
    V = []
    dim = nin - (1 if has_t else 0)
    o = 1 if has_t else 0
    for _k in range(nout):
        p = []
        for i in range(dim):
            e = [0] * nin
            e[o + i] = 2
            p.append(dict(c=rng.choice([-2, -1, 1, 2]), e=e))
            e = [0] * nin
            e[o + i] = 1
            p.append(dict(c=rng.choice([-3, -1, 1, 3]), e=e))
        if dim == 2:
            e = [0] * nin
            e[o] = 1
            e[o + 1] = 1
            p.append(dict(c=rng.choice([-1, 1, 2]), e=e))
        if has_t:
            e = [0] * nin
            e[0] = 1
            e[1] = 1
            p.append(dict(c=rng.choice([-1, 1]), e=e))
        p.append(dict(c=rng.randint(-2, 2) or 1, e=[0] * nin))
        V.append(p)
    return V


def expand_c03(st, seed):
    rng = _rng(seed, st, drop=("twin", "call"))
    lk = st["lkind"]
    dim = 0 if lk == "ode" else rng.choice([1, 2])
    nout = rng.choice([1, 2])
    r = base_record(rng, lk, dim, nout=nout, npar=2, nres=st["nres"])
    set_inside(r, rng, st["b"])
    if not st["dyn"]:
        r["R"] = []
    r["w"]["dyn"] = [rng.choice([2, 3])] if st["wform"] == "scalar" or st["nres"] == 1 else [1, 2, 3][: st["nres"]]
    ex = list(st["extras"])
    has_t = lk != "statio"
    nin = dim + (1 if has_t else 0)
    if "ic" in ex:
        if lk == "ode":
            r["ic"] = dict(on=True, t0=rng.randint(-1, 2), u0=[rng.randint(-3, 3) for _ in range(nout)])
        else:
            r["ic"] = dict(on=True, t0=0, u0=[rpoly(rng, dim, 2, 2) for _ in range(nout)])
    if "norm" in ex:
        r["sol"] = [1, 1]
        r["obsd"]["slice"] = [1, 1]
        r["norm"] = dict(on=True, samples=[rpoint(rng, dim, False) for _ in range(4)], L=2)
    if "bnd" in ex:
        set_border(r, rng, 2, 1)
        g = [rpoly(rng, nin, 2, 1)]
        r["bnd"] = [dict(kind="dirichlet", g=g, comp=[1, 1]) for _ in range(2 * dim)]
    if "obs" in ex:
        k = r["sol"][1] - r["sol"][0] + 1
        r["obsd"] = dict(on=True, **{"in": [rpoint(rng, nin, has_t) for _ in range(2)]}, val=[[rng.randint(-3, 3) for _ in range(k)] for _ in range(2)],
                         slice=[1, k], etab=[[], []])
    configured = set(ex) | ({"dyn"} if st["dyn"] else set())
    r["check"] = ["sum", "dyn"] + [n for n in ("ic", "norm", "bnd", "obs") if n not in configured]
    r["rshape"] = st.get("rshape", "array")
    r["group"] = _key(st, drop=("twin", "call"))
    r["twin"] = st["twin"]
    r["call"] = st["call"]
    tw = st["twin"]
    if tw == "perm":
        rows = list(r["inside"])
        rng2 = random.Random(1)
        rng2.shuffle(rows)
        if rows == r["inside"] and len(rows) > 1:
            rows = rows[1:] + rows[:1]
        r["inside"] = rows
    elif tw == "halfA":
        r["inside"] = r["inside"][: st["b"] // 2]
    elif tw == "halfB":
        r["inside"] = r["inside"][st["b"] // 2:]
    elif tw == "rew":
        r["w"]["dyn"] = [3 * v for v in r["w"]["dyn"]] if len(r["w"]["dyn"]) == 1 else [a * b for a, b in zip(r["w"]["dyn"], [2, 3, 5])]
    return r


def expand_c04(st, seed):
    rng = _rng(seed, st)
    lk, dim = st["lkind"], st["dim"]
    has_t = lk != "statio"
    nin = dim + (1 if has_t else 0)
    nout = st["nout"]
    r = base_record(rng, lk, dim, nout=nout, npar=2, nres=1)
    r["R"] = []
    r["V"] = _quad_net(rng, nin, has_t, nout)
    set_inside(r, rng, 2)
    r["rep1d"] = True
    set_border(r, rng, st["nb"], st["nt"])
    r["w"]["bnd"] = [2]
    r["bndform"] = st["form"]
    r["gret"] = st["gret"]
    comp = st["comp"]
    shared_g = None
    bnd = []
    for f in range(2 * dim):
        kind = st["conds"][f]
        multi = kind == "dirichlet" and st["gret"] == "array" and nout == 2 and (f + comp) % 2 == 0
        cs = [1, 2] if multi else [comp, comp]
        ncomp = cs[1] - cs[0] + 1
        if st["form"] == "global":
            cs = [1, 2] if (kind == "dirichlet" and st["gret"] == "array" and nout == 2) else [comp, comp]
            ncomp = cs[1] - cs[0] + 1
            if shared_g is None:
                shared_g = [[dict(c=0, e=[0] * nin)] if st["gzero"] else rpoly(rng, nin, 2, 1) + [dict(c=rng.choice([1, 2, 3]), e=[0] * nin)] for _ in range(ncomp)]
            g = shared_g
        else:
            g = [[dict(c=0, e=[0] * nin)] if st["gzero"] else rpoly(rng, nin, 2, 1) + [dict(c=rng.choice([1, 2, 3]), e=[0] * nin)] for _ in range(ncomp)]
        bnd.append(dict(kind=kind, g=g, comp=cs))
    r["bnd"] = bnd
    # per-facet dictionaries are keyed by facet name: the user may write the keys in any order
    order = list(range(2 * dim))
    if st["form"] == "dict" and rng.random() < 0.5:
        rng.shuffle(order)
    r["keyorder"] = order
    # a single component may be selected by an integer (the documentation allows it) instead of a slice
    r["compform"] = "int" if rng.random() < 0.5 else "slice"
    r["check"] = ["bnd", "sum", "dyn", "ic", "norm", "obs"]
    return r


def expand_c05(st, seed):
    rng = _rng(seed, st)
    lk = st["lkind"]
    dim = 0 if lk == "ode" else rng.choice([1, 2])
    has_t = lk != "statio"
    nin = dim + (1 if has_t else 0)
    nout = st["nout"]
    etab = st["etab"]
    r = base_record(rng, lk, dim, nout=nout, ot="affine" if etab else "none", npar=2, nres=1)
    r["R"] = []
    term = st["term"]
    b = st["b"]
    if lk == "nonstatio" and st["cart"]:
        ts = [0, 2][: max(1, min(2, b))]
        xs, tries = [], 0
        while len(xs) < max(1, b // len(ts)):
            x = rpoint(rng, dim, False)
            tries += 1
            if x not in xs or tries > 60:
                xs.append(x)
        r["inside"] = [[t] + x for t in ts for x in xs]
    else:
        set_inside(r, rng, b)
    wv = lambda k: [rng.choice([2, 3])] if st["wform"] == "scalar" or k == 1 else [1, 2, 3][:k]
    if term == "ic":
        if lk == "ode":
            r["ic"] = dict(on=True, t0=rng.randint(-1, 2), u0=[rng.randint(-3, 3) for _ in range(nout)])
            r["w"]["ic"] = [rng.choice([2, 3])]
        else:
            r["ic"] = dict(on=True, t0=0, u0=[rpoly(rng, dim, 2, 2) for _ in range(nout)])
            r["w"]["ic"] = wv(nout)
    elif term == "norm":
        r["sol"] = [2, nout] if st.get("sol") == "tail" else [1, 1]      # tail with three outputs: a TWO-component solution
        r["V"] = _quad_net(rng, nin, has_t, nout)      # non-constant over the samples
        samples, tries = [], 0
        while len(samples) < st["ns"]:
            x = [rng.randint(-3, 4) for _ in range(dim)]
            tries += 1
            if x not in samples or tries > 80:
                samples.append(x)
        r["norm"] = dict(on=True, samples=samples, L=st["L"])
        r["w"]["norm"] = [rng.choice([1, 2, 3])]
        r["obsd"]["slice"] = [1, 1]
    else:
        ns_ = nout
        if st.get("sol") == "tail":          # the solution is outputs 2..nout; the observation slice indexes the SOLUTION components
            r["sol"] = [2, nout]
            ns_ = nout - 1
        sl = {"all": [1, ns_], "first": [1, 1], "last": [ns_, ns_]}[st["sl"]]
        k = sl[1] - sl[0] + 1
        rows = [rpoint(rng, nin, has_t) for _ in range(b)]
        r["obsd"] = dict(on=True, **{"in": rows}, val=[[rng.randint(-3, 3) for _ in range(k)] for _ in range(b)], slice=sl,
                         etab=[[rng.choice([-1, 2, 3]) + i for i in range(b)] if etab else [], []])
        r["w"]["obs"] = wv(k)
    r["check"] = ["sum", "dyn", "ic", "norm", "bnd", "obs"]
    return r


def expand_c12(st, seed):
    """every subset of batched keys of a 3-key parameter set; the network depends on k1, k2 (affine output transform), the
    residual on all three; tagged (distinct) rows; optional heterogeneity maps; optional observed k3"""
    rng = _rng(seed, st)
    lk = st["lkind"]
    dim = 0 if lk == "ode" else rng.choice([1, 2])
    has_t = lk != "statio"
    nin = dim + (1 if has_t else 0)
    b = st["b"]
    r = base_record(rng, lk, dim, nout=1, ot="affine" if st["ot"] else "none", npar=3, nres=2)
    nv = nin + 1 + 3
    def mon(c, **kw):
        e = [0] * nv
        for k, p in kw.items():
            e[{"u": nin, "k1": nin + 1, "k2": nin + 2, "k3": nin + 3, "x0": 0}[k]] = p
        return dict(c=c, e=e)
    r["R"] = [[mon(1, u=1), mon(2, k1=1, x0=1), mon(-1, k3=1)], [mon(1, k2=1, u=1), mon(3, k3=1, x0=1), mon(1, k1=1)]]
    set_inside(r, rng, b)
    r["th"] = [2, -1, 3]
    r["ptab"] = [[rng.choice([-2, 1, 3]) + 2 * i for i in range(b)] if (k + 1) in st["batched"] else [] for k in range(3)]
    r["pshape"] = st["pshape"]
    r["pint"] = bool(st.get("pint"))
    r["pkrev"] = bool((b + len(st["batched"]) + len(st["hetero"])) % 2)
    r["w"]["dyn"] = [1, 2]
    if lk == "ode":
        r["ic"] = dict(on=True, t0=1, u0=[2])
    elif lk == "nonstatio":
        r["ic"] = dict(on=True, t0=0, u0=[rpoly(rng, dim, 2, 1)])
    if st["hetero"] != "none":
        nh = nin + 3
        def hm(c, **kw):
            e = [0] * nh
            for k, p in kw.items():
                e[{"k1": nin, "k2": nin + 1, "k3": nin + 2, "x0": 0}[k]] = p
            return dict(c=c, e=e)
        if st["hetero"] == "k1":
            r["het"] = [[hm(1, k1=1, x0=1), hm(1, k2=1)], [], []]      # k1 -> k1 * x0 + k2 ; k2, k3 missing from the dict
            r["hetmode"] = "missing"
        elif st["hetero"] == "k3map":
            r["het"] = [[], [], [hm(2, k3=1, x0=1), hm(1, k1=1)]]        # k3 -> 2 k3 x0 + k1 ; others declared None
            r["hetmode"] = "none_entries"
        elif st["hetero"] == "k1k3":
            # two heterogeneous keys; the map of k3 reads the RAW k1 (the key that sorts first): k1 -> k1 x0 + k2, k3 -> 2 k3 x0 + k1
            r["het"] = [[hm(1, k1=1, x0=1), hm(1, k2=1)], [], [hm(2, k3=1, x0=1), hm(1, k1=1)]]
            r["hetmode"] = "missing"
        else:
            # the map of k1 reads the RAW k3 (the key that sorts last): k1 -> k1 x0 + 3 k3, k3 -> 2 k3 x0 + 1
            r["het"] = [[hm(1, k1=1, x0=1), hm(3, k3=1)], [], [hm(2, k3=1, x0=1), hm(1)]]
            r["hetmode"] = "none_entries"
    if st["obsk"]:
        rows = [rpoint(rng, nin, has_t) for _ in range(b)]
        r["obsd"] = dict(on=True, **{"in": rows}, val=[[rng.randint(-3, 3)] for _ in range(b)], slice=[1, 1],
                         etab=[[], [], [5 + i for i in range(b)]] if not st["ot"] else [[rng.choice([1, 2]) + i for i in range(b)], [], []])
    if st.get("normp"):
        ns = b if lk == "statio" else 8 // b      # non-stationary: any number of samples (a power of two keeps the means exact)
        samples, tries = [], 0
        while len(samples) < ns:
            x = [rng.randint(-3, 4) for _ in range(dim)]
            tries += 1
            if x not in samples or tries > 80:
                samples.append(x)
        r["V"] = _quad_net(rng, nin, has_t, 1)
        r["norm"] = dict(on=True, samples=samples, L=rng.choice([1, 2]))
        r["w"]["norm"] = [rng.choice([1, 2, 3])]
    if st.get("bndp", "none") != "none":
        r["V"] = _quad_net(rng, nin, has_t, 1)
        set_border(r, rng, b, 1)
        r["border"] = [(rows * b)[:b] for rows in r["border"]]       # as many border rows as parameter rows (1-D: the facet point repeated)
        r["bnd"] = [dict(kind=st["bndp"], g=[rpoly(rng, nin, 2, 1) + [dict(c=rng.choice([1, 2, 3]), e=[0] * nin)]], comp=[1, 1]) for _ in range(2 * dim)]
        r["bnd"] = [r["bnd"][0]] * (2 * dim)      # global form: one condition and one f for every facet
        r["w"]["bnd"] = [rng.choice([1, 2, 3])]
    r["Tmax"] = [1, 3, 2][(b + len(st["batched"])) % 3]       # an attribute of the dynamic loss our equations do not use: no effect expected
    r["check"] = ["sum", "dyn", "ic", "norm", "bnd", "obs"]
    return r


def expand_c13(st, seed):
    rng = _rng(seed, st)
    lk = st["lkind"]
    dim = 0 if lk == "ode" else rng.choice([1, 2])
    has_t = lk != "statio"
    nin = dim + (1 if has_t else 0)
    nunk, neq = st["nunk"], st["neq"]
    unames = ["ua", "ub", "uc"][:nunk]
    if st["naming"] == "same":
        enames = list(unames)
    elif st["naming"] == "different":
        enames = ["e1", "e2", "e3"][:neq]
    else:
        enames = (unames + ["e1", "e2", "e3"])[:neq] if neq <= nunk else (unames[:1] + ["e1", "e2"])[:neq]
    th = [2, -1]
    nv = nin + nunk + 2
    b = 2
    r = dict(kind="sysloss", lkind=lk, dim=dim, th=th, ptab=[[], []], inside=[], border=[], nets=[], eqs=[], wu=[],
             wform=st["wform"], wrev=bool(st["wform"] == "dict" and rng.random() < 0.5), shared=bool(st.get("shared")), src="tlc", exc="")
    tmp = dict(lkind=lk, dim=dim)
    set_inside(tmp, rng, b)
    r["inside"] = tmp["inside"]
    if st["bnd"]:
        set_border(tmp, rng, 2, 1)
        r["border"] = tmp["border"]
    if st["pbatch"]:
        r["ptab"] = [[3, 5][:b], []]
    for k, name in enumerate(unames):
        V = rpoly(rng, nin, 2, 2, must=k % nin) + [dict(c=k + 1, e=[0] * nin)]
        ic_on = st["icpat"] == "all" or (st["icpat"] == "first" and k == 0)
        if lk == "ode":
            ic = dict(on=ic_on, t0=1, u0=[rng.randint(-2, 3)])
        else:
            ic = dict(on=ic_on, t0=0, u0=[rpoly(rng, dim, 2, 1)] if dim else [])
        obs_on = st["obspat"] == "all" or (st["obspat"] == "first" and k == 0)
        obsd = dict(on=obs_on, **{"in": [rpoint(rng, nin, has_t) for _ in range(b)] if obs_on else []},
                    val=[[rng.randint(-3, 3)] for _ in range(b)] if obs_on else [], slice=[1, 1], etab=[[], []])
        bnd = []
        if st["bnd"]:
            kind = ["dirichlet", "none", "neumann"][k % 3] if lk != "ode" else "none"
            g = [rpoly(rng, nin, 1, 1) + [dict(c=1, e=[0] * nin)]]
            bnd = [dict(kind=kind, g=g, comp=[1, 1]) for _ in range(2 * dim)]
        net = dict(name=name, V=V, ic=ic, obsd=obsd, bnd=bnd)
        if st.get("normu") and lk != "ode":           # per-unknown normalisation: own samples, own volume
            samples, tries = [], 0
            while len(samples) < 2 + 2 * (k % 2):
                x = [rng.randint(-3, 4) for _ in range(dim)]
                tries += 1
                if x not in samples or tries > 80:
                    samples.append(x)
            net["norm"] = dict(on=True, samples=samples, L=1 + k)
        if st.get("obs2"):            # a second output; unknown k is observed on its own component (k odd: the first, k even: the second)
            net["V2"] = rpoly(rng, nin, 2, 2, must=(k + 1) % nin) + [dict(c=-(k + 2), e=[0] * nin)]
            comp = 1 + (k + 1) % 2
            obsd["slice"] = [comp, comp]
            for bb_ in bnd:                      # the boundary condition of this unknown applies to the same component
                bb_["comp"] = [comp, comp]
        r["nets"].append(net)
        if st["wform"] == "nocons":       # weights of the per-unknown terms omitted: ODE systems drop the terms, PDE systems default to 1.0
            r["wu"].append(dict(ic=0, norm=0, bnd=0, obs=0) if lk == "ode" else dict(ic=1, norm=1, bnd=1, obs=1))
        else:
            r["wu"].append(dict(ic=2 + k, norm=1, bnd=3 + k, obs=1 + 2 * k) if st["wform"] == "dict" else dict(ic=2, norm=1, bnd=3, obs=5))
    for e, name in enumerate(enames):
        # asymmetric in t and x, involving every unknown and a parameter
        R = []
        for u in range(nunk):
            ee = [0] * nv
            ee[nin + u] = 1
            R.append(dict(c=u + 1 + e, e=ee))
        ee = [0] * nv
        ee[0] = 1 + (e % 2)
        R.append(dict(c=2 - e, e=ee))
        if nin > 1:
            ee = [0] * nv
            ee[1] = 1
            ee[nv - 2] = 1
            R.append(dict(c=3, e=ee))
        else:
            ee = [0] * nv
            ee[nv - 2] = 1
            R.append(dict(c=3, e=ee))
        r["eqs"].append(dict(name=name, R=R, w=(2 + e) if st["wform"] == "dict" else (0 if st["wform"] == "nodyn" else 4),
                             scalar=bool((e + len(st["naming"]) + st["nunk"]) % 3 == 0),      # this equation returns its residual as a 0-d scalar
                             # every other equation declares k1 heterogeneous: k1 -> k1 * x0 + k2 inside this equation only
                             het=[[dict(c=1, e=[1] + [0] * (nin - 1) + [1, 0]), dict(c=1, e=[0] * nin + [0, 1])], []] if (e + st["nunk"]) % 2 == 0 else [[], []]))
    return r


def _grid(cols):
    """tensor grid (indexing 'ij', first column slowest) of the columns of a (B, D) batch: list of rows"""
    B = len(cols)
    D = len(cols[0]) if cols else 0
    rows = [[]]
    for dd in range(D):
        rows = [r + [cols[i][dd]] for r in rows for i in range(B)]
    return rows


def expand_c11l(st, seed):
    """loss terms evaluated on a polynomial SPINN: jinns receives the batch COLUMNS, the oracle the tensor grid they span"""
    rng = _rng(seed, st)
    lk, dim, b, R, M, term = st["lkind"], st["dim"], st["b"], st["R"], st["M"], st["term"]
    has_t = lk == "nonstatio"
    d = dim + (1 if has_t else 0)
    coef = [[[rng.randint(-2, 2) for _ in range(3)] for _ in range(R * M)] for _ in range(d)]
    for dd in range(d):
        for j in range(R * M):
            if not any(coef[dd][j][1:]):
                coef[dd][j][1] = rng.choice([-1, 1, 2])
    r = base_record(rng, lk, dim, nout=M, npar=2, nres=1)
    r.update(net="spinn", coef=coef, spR=R, spM=M, V=spinn_expand(coef, d, R, M))
    r["R"] = []
    r["sol"] = [1, M]
    r["obsd"]["slice"] = [1, M]

    def cols(n, time_first=has_t, lo=-2, hi=2):
        out = []
        while len(out) < n:
            row = [rng.randint(0, 2) if (time_first and i == 0) else rng.randint(lo, hi) for i in range(d if time_first or not has_t else dim)]
            out.append(row)
        return out

    inside_cols = cols(b)
    r["cols_inside"] = inside_cols
    if term == "ic":
        xs = [row[1:] for row in inside_cols]
        r["inside"] = [[0] + g for g in _grid(xs)]
        r["ic"] = dict(on=True, t0=0, u0=[rpoly(rng, dim, 2, 2) for _ in range(M)])
        r["w"]["ic"] = [rng.choice([1, 2])]
        # one output: the user's initial function may return the grid of values WITHOUT a trailing component axis (the repository's own
        # separable-network example does)
        r["icret"] = "grid" if (M == 1 and (b + dim + R) % 2 == 0) else "comp"
    elif term == "dyn":
        nres = rng.choice([1, 2])
        nv = d + M + 2
        r["R"] = [rpoly(rng, nv, 2, 2, must=d + (c % M)) for c in range(nres)]
        r["inside"] = _grid(inside_cols)
        r["w"]["dyn"] = [rng.choice([1, 2])] if nres == 1 else [1, 2]
    elif term == "norm":
        ns = b * rng.choice([1, 2]) if has_t else rng.choice([2, 4])     # non-stationary: a multiple of the time batch (the times are repeated)
        samp_cols = [[rng.randint(-2, 2) for _ in range(dim)] for _ in range(ns)]
        r["cols_norm"] = samp_cols
        r["norm"] = dict(on=True, samples=_grid(samp_cols), L=rng.choice([1, 2]))
        r["inside"] = [[row[0]] + [0] * dim for row in inside_cols] if has_t else [[0] * dim]
        r["w"]["norm"] = [rng.choice([1, 2])]
    else:
        nb = 1 if dim == 1 else b
        r["inside"] = [[0] * d]
        border_cols, border = [], []
        times = [rng.randint(0, 2) for _ in range(nb)] if has_t else None
        for f in range(2 * dim):
            rows = []
            for k in range(nb):
                x = [rng.randint(-1, 1) for _ in range(dim)]
                x[f // 2] = -2 if f % 2 == 0 else 2
                rows.append(([times[k]] if has_t else []) + x)
            border_cols.append(rows)
            border.append(_grid(rows))
        r["cols_border"] = border_cols
        r["border"] = border
        kind = term
        comp = [1, M] if (term == "dirichlet" and M > 1) else ([M, M] if term == "neumann" else [1, 1])
        ncomp = comp[1] - comp[0] + 1
        g = [[dict(c=0, e=[0] * d)] if st["gzero"] else rpoly(rng, d, 2, 1) + [dict(c=rng.choice([1, 2]), e=[0] * d)] for _ in range(ncomp)]
        r["bnd"] = [dict(kind=kind, g=g, comp=comp) for _ in range(2 * dim)]
        r["w"]["bnd"] = [rng.choice([1, 2])]
    r["check"] = ["ic", "norm", "bnd", "sum", "dyn"]
    return r


EXPANDERS = dict(C03=expand_c03, C04=expand_c04, C05=expand_c05, C12=expand_c12, C13=expand_c13, C11L=expand_c11l)


def expand(struct, seed):
    r = EXPANDERS[struct["family"]](struct, seed)
    r["struct"] = {k: v for k, v in struct.items() if k != "kind"}
    return r


# ------------------------------------------------------------------------------------------ C02
def _q(n, d=1):
    return dict(n=int(n), d=int(d))


def expand_eq(st, seed):
    rng = _rng(seed, st)
    eq, role = st["eq"], st["role"]
    val = lambda name, neutral=0: _q(rng.choice([2, 3, -2]) if role in (name, "all") else neutral)
    r = dict(kind="equation", eq=eq, Tmax=st["Tmax"], layout=st["layout"], dim=st["dim"], role=role, src="tlc", U=[], P=[], par={}, pts=[])
    if eq == "burgers":
        r["U"] = [rpoly(rng, 2, 3, 2, must=1) + [dict(c=rng.choice([1, -1, 2]), e=[0, 2])]]      # u_xx never vanishes identically
        r["par"] = dict(nu=val("nu"))
        r["pts"] = [rpoint(rng, 2, True) for _ in range(4)]
        if st["layout"] == "sliced":
            r["D"] = rpoly(rng, 2, 3, 2, must=0) + [dict(c=rng.choice([1, 2]), e=[1, 1])]      # the other output of the network (not the solution)
    elif eq == "fisher":
        d = st["dim"]
        r["U"] = [rpoly(rng, 1 + d, 3, 2, must=1) + [dict(c=k + 1, e=[2 if i == 1 + k else 0 for i in range(1 + d)]) for k in range(d)]]   # every u_{x_k x_k} is non-zero
        r["par"] = dict(D=val("D"), r=val("r"), g=val("g"))
        r["pts"] = [rpoint(rng, 1 + d, True) for _ in range(4)]
    elif eq == "ou":
        r["U"] = [rpoly(rng, 3, 3, 2, must=1) + [dict(c=1, e=[0, 0, 2])]]
        r["par"] = dict(alpha=[val("alpha1"), val("alpha2")], mu=[val("mu1"), val("mu2")],
                        sigma=[_q(rng.choice([4, 6]) if role in ("sigma1", "all") else 0), _q(rng.choice([2, -2]) if role in ("sigma2", "all") else 0)])
        if role in ("mu1", "mu2"):       # mu only acts through alpha
            r["par"]["alpha"] = [_q(1), _q(1)]
        r["pts"] = [rpoint(rng, 3, True) for _ in range(4)]
    elif eq == "masscons":
        r["U"] = [rpoly(rng, 2, 3, 2, must=0), rpoly(rng, 2, 3, 2, must=1)]
        r["pts"] = [rpoint(rng, 2, False) for _ in range(4)]
    elif eq == "ns":
        r["U"] = [rpoly(rng, 2, 3, 2, must=0) + [dict(c=1, e=[2, 0]), dict(c=2, e=[0, 2])],
                  rpoly(rng, 2, 3, 2, must=1) + [dict(c=-1, e=[2, 0]), dict(c=1, e=[0, 2])]]          # both Laplacians are non-zero
        r["P"] = rpoly(rng, 2, 3, 2, must=0) + [dict(c=2, e=[0, 1])]
        r["par"] = dict(rho=_q(rng.choice([2, 4]) if role in ("rho", "all") else 1), nu=val("nu"))
        r["pts"] = [rpoint(rng, 2, False) for _ in range(4)]
    else:  # glv: species c_j (1 + t)^m_j, evaluated where 1 + t is a power of two
        import math

        U = []
        for j in range(3):
            c, m = rng.choice([1, 2, 3]), rng.choice([1, 2, 3]) if j == 0 else rng.choice([0, 1, 2])
            U.append([dict(c=c * math.comb(m, k), e=[k]) for k in range(m + 1)])
        r["U"] = U
        r["par"] = dict(growth=val("growth"), carry=val("carry"), inter=[val("inter1"), val("inter2"), val("inter3")])
        r["pts"] = [[t] for t in (0, 1, 3, 7)]
        r["distract"] = [rng.choice([5, 7]), rng.choice([11, 13])]
    return r


# ------------------------------------------------------------------------------------------ C10
def _imat(rng, o, i, lo=-2, hi=2):
    return [[rng.randint(lo, hi) for _ in range(i)] for _ in range(o)]


def _mlp_layers(rng, nin, nout, depth, act, hidden=2):
    if depth == 1:
        return [dict(W=_imat(rng, nout, nin), b=[rng.randint(-1, 1) for _ in range(nout)], act="id")]
    return [dict(W=_imat(rng, hidden, nin), b=[rng.randint(-1, 1) for _ in range(hidden)], act=act),
            dict(W=_imat(rng, nout, hidden), b=[rng.randint(-1, 1) for _ in range(nout)], act="id")]


def expand_net(st, seed):
    rng = _rng(seed, st)
    r = dict(kind="net", wrapper=st["wrapper"], eq_type=st["eq_type"], src="tlc", struct={k: v for k, v in st.items() if k != "kind"})
    if st["wrapper"] in ("pinn", "hyper"):
        nin = {"ODE": 1, "statio_PDE": st["dimx"], "nonstatio_PDE": 1 + st["dimx"]}[st["eq_type"]]
        nout = st["nout"]
        r.update(nin=nin, nout=nout, it=st["it"], ot=st["ot"], pform=st["pform"], tform=st["tform"], depth=st["depth"], act=st["act"],
                 th=[rng.choice([1, 2, -1]), rng.choice([2, 3, -2])], layers=_mlp_layers(rng, nin, nout, st["depth"], st["act"]),
                 ins=[[rng.randint(-2, 2) for _ in range(nin)] for _ in range(3)],
                 oslice={"none": [], "first": [1, 1], "last2": [2, 3], "lastint": [nout, nout], "firstint": [1, 1]}[st["shared"]], shared=st["shared"])
        if st["wrapper"] == "hyper":
            shapes = [dict(o=len(L["W"]), i=len(L["W"][0]), act=L["act"]) for L in r["layers"]]
            P = sum(s["o"] * s["i"] + s["o"] for s in shapes)
            hyper = [dict(W=_imat(rng, P, 2, -1, 1), b=[rng.randint(-1, 1) for _ in range(P)], act="id")]
            if st["depth"] == 2:      # a two-layer hyper-network 2 -> 3 -> P (its last layer's size is computed by create_HYPERPINN)
                hyper = [dict(W=[[1, rng.choice([-1, 1])], [rng.choice([0, 1]), 1], [1, 0]], b=[rng.randint(-1, 1), 0, 1], act="id"),
                         dict(W=_imat(rng, P, 3, -1, 1), b=[rng.randint(-1, 1) for _ in range(P)], act="id")]
            r.update(inner=shapes, hyper=hyper,
                     hth=[rng.choice([1, 2]), rng.choice([-1, 1, 3])], hporder=rng.choice(["k3k4", "k4k3"]))
    else:
        d, R, M, b = st["d"], st["r"], st["m"], st["b"]
        r.update(d=d, R=R, M=M, b=b, pform=st["pform"], depth=st["depth"], act=st["act"],
                 mlps=[_mlp_layers(rng, 1, R * M, st["depth"], st["act"]) for _ in range(d)],
                 xs=[[rng.randint(-2, 2) for _ in range(b)] for _ in range(d)])
        idxs = [[]]
        for _ in range(d):
            idxs = [i + [k + 1] for i in idxs for k in range(b)]
        r["idxs"] = idxs
    return r


# ------------------------------------------------------------------------------------------ C11
def poly_mul(p, q):
    out = {}
    for a in p:
        for b in q:
            e = tuple(x + y for x, y in zip(a["e"], b["e"]))
            out[e] = out.get(e, 0) + a["c"] * b["c"]
    return [dict(c=c, e=list(e)) for e, c in out.items() if c]


def poly_add(p, q):
    out = {}
    for a in list(p) + list(q):
        e = tuple(a["e"])
        out[e] = out.get(e, 0) + a["c"]
    return [dict(c=c, e=list(e)) for e, c in out.items() if c]


def spinn_expand(coef, d, R, M):
    """the polynomial u_m(x) = sum_k prod_dim f_dim[(m-1)R + k](x_dim) of a polynomial SPINN"""
    fields = []
    for m in range(M):
        tot = []
        for k in range(R):
            prod = [dict(c=1, e=[0] * d)]
            for dd in range(d):
                c = coef[dd][m * R + k]
                uni = [dict(c=c[p], e=[p if i == dd else 0 for i in range(d)]) for p in range(len(c)) if c[p]]
                prod = poly_mul(prod, uni or [dict(c=0, e=[0] * d)])
            tot = poly_add(tot, prod)
        fields.append(tot or [dict(c=0, e=[0] * d)])
    return fields


def expand_fr(st, seed):
    rng = _rng(seed, st)
    d, R, M, b, deg = st["d"], st["R"], st["M"], st["b"], st["deg"]
    coef = [[[rng.randint(-2, 2) for _ in range(deg + 1)] for _ in range(R * M)] for _ in range(d)]
    for dd in range(d):                      # no identically-zero feature
        for j in range(R * M):
            if not any(coef[dd][j][1:]):
                coef[dd][j][1] = rng.choice([-1, 1, 2])
            if deg >= 2 and coef[dd][j][deg] == 0:          # degree-2 features really are quadratic (second derivatives do not vanish)
                coef[dd][j][deg] = rng.choice([-1, 1, 2])
            if coef[dd][j][0] == 0 and deg >= 1:              # ... and have a constant part, so that products keep lower-order terms
                coef[dd][j][0] = rng.choice([-1, 1])
    xs = []
    for dd in range(d):
        col = []
        while len(col) < b:
            v = rng.randint(0, 2) if (st["withT"] and dd == 0) else rng.randint(-2, 2)
            if v not in col or len(col) >= 3:
                col.append(v)
        xs.append(col)
    idxs = [[]]
    for _ in range(d):
        idxs = [i + [k + 1] for i in idxs for k in range(b)]
    par = {}
    if st["op"] == "burgers":
        par = dict(nu=_q(rng.choice([1, 2, 3])))
    if st["op"] == "fisher":
        par = dict(D=_q(rng.choice([1, 2])), r=_q(rng.choice([1, 3])), g=_q(rng.choice([1, 2])))
    extra = {}
    if st["op"] == "ou":
        par = dict(alpha=[_q(rng.choice([1, 2])), _q(rng.choice([-1, 3]))], mu=[_q(rng.choice([0, 1])), _q(rng.choice([-1, 2]))],
                   sigma=[_q(rng.choice([4, 6])), _q(rng.choice([2, -2]))])       # anisotropic diffusion: sigma_1^2 != sigma_2^2
    if st["op"] == "ns":
        par = dict(rho=_q(rng.choice([1, 2, 4])), nu=_q(rng.choice([1, 2, 3])))
        coefP = [[[rng.randint(-2, 2) for _ in range(deg + 1)] for _ in range(R)] for _ in range(d)]
        for dd in range(d):
            for j in range(R):
                if not any(coefP[dd][j][1:]):
                    coefP[dd][j][1] = rng.choice([-1, 1, 2])
        extra = dict(coefP=coefP, twinP=spinn_expand(coefP, d, R, 1))
    return dict(kind="fwdrev", op=st["op"], d=d, withT=st["withT"], R=R, M=M, b=b, coef=coef, xs=xs, idxs=idxs, par=par, Tmax=st["Tmax"],
                twin=spinn_expand(coef, d, R, M), src="tlc", struct={k: v for k, v in st.items() if k != "kind"}, **extra)
