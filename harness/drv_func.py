"""Drivers of the functional checks: evaluate the REAL jinns code on one configuration record
emitted by TLC (or generated from VERIF_SEED) and attach the exact observed value(s)."""
from __future__ import annotations

import numpy as np

from .polynet import frac, fracs, make_pinn, polyeval


def _exc(rec, ex):
    rec = dict(rec)
    rec["obs"] = []
    rec["exc"] = f"{type(ex).__name__}: {str(ex)[:160]}"
    return rec


# ---------------------------------------------------------------------------------- C01
def run_operator(rec):
    import jax
    import jax.numpy as jnp
    import jinns
    from jinns.loss import _operators as ops

    dim, withT, op = rec["dim"], rec["withT"], rec["op"]
    u = make_pinn(rec["fields"], "nonstatio_PDE" if withT else "statio_PDE")
    params = jinns.parameters.Params(nn_params=u.init_params(), eq_params={"junk": jnp.array(float(rec["junk"]))})
    impl = rec.get("impl", "direct")

    def one(pt):
        t = pt[:1] if withT else None
        x = pt[1:] if withT else pt
        if op == "lap":
            return jnp.atleast_1d(ops._laplacian_rev(t, x, u, params))
        if op == "div":
            return jnp.atleast_1d(ops._div_rev(t, x, u, params))
        if op == "veclap":
            return jnp.ravel(ops._vectorial_laplacian(t, x, u, params))
        if op == "adv":
            return jnp.ravel(ops._u_dot_nabla_times_u_rev(t, x, u, params))
        raise ValueError(op)

    pts = jnp.asarray(np.array(rec["pts"], dtype=np.float64))
    try:
        vals = np.asarray(jax.vmap(one)(pts))
    except Exception as ex:  # noqa
        return _exc(rec, ex)
    out = dict(rec)
    out["obs"] = [fracs(v) for v in vals]
    out["exc"] = ""
    return out


# ---------------------------------------------------------------------------------- loss terms
NAMES = ["dyn_loss", "initial_condition", "norm_loss", "boundary_loss", "observations"]


_EQ_CLASSES = {}


def _user_equation_class(lkind):
    """module-level (cached) dynamic-loss classes whose residual function is an instance field"""
    if lkind in _EQ_CLASSES:
        return _EQ_CLASSES[lkind]
    import equinox as eqx
    import jax.numpy as jnp
    from typing import Callable
    from jinns.loss import ODE, PDEStatio, PDENonStatio

    if lkind == "ode":
        class UserEquationODE(ODE):
            resid: Callable = eqx.field(static=True, kw_only=True, default=None)

            def equation(self, t, u, p):
                # the time is used AS GIVEN (a 0-d value for the documented 1-D temporal batch): the shape of a residual built from
                # it follows the shape the loss hands over
                return self.resid([t], u(t, p), p)
        cls = UserEquationODE
    elif lkind == "statio":
        class UserEquationStatio(PDEStatio):
            resid: Callable = eqx.field(static=True, kw_only=True, default=None)

            def equation(self, x, u, p):
                return self.resid(x, u(x, p), p)
        cls = UserEquationStatio
    else:
        class UserEquationNonStatio(PDENonStatio):
            resid: Callable = eqx.field(static=True, kw_only=True, default=None)

            def equation(self, t, x, u, p):
                return self.resid(jnp.concatenate([t, x]), u(t, x, p), p)
        cls = UserEquationNonStatio
    _EQ_CLASSES[lkind] = cls
    return cls


def build_loss(rec, derivative_keys=None):
    """loss record -> (jinns loss, params, batch) built through the public constructors"""
    import warnings

    import jax
    import jax.numpy as jnp
    import jinns
    from jinns.data._Batchs import ODEBatch, PDEStatioBatch, PDENonStatioBatch
    from jinns.data._DataGenerators import append_obs_batch, append_param_batch
    from jinns.loss import ODE, PDEStatio, PDENonStatio

    warnings.simplefilter("ignore")
    lkind, dim = rec["lkind"], rec["dim"]
    has_t = lkind != "statio"
    nin = dim + (1 if has_t else 0)
    eq_type = {"ode": "ODE", "statio": "statio_PDE", "nonstatio": "nonstatio_PDE"}[lkind]
    pkeys = [f"k{i + 1}" for i in range(len(rec["th"]))]
    ot = None
    if rec["ot"] == "affine":
        # jnp.sum of a single value is that value: a network that is (wrongly) handed a whole parameter TABLE instead of its row does not
        # broadcast to the right answer by accident
        ot = lambda i, o, p: o * jnp.sum(p.eq_params["k1"]) + jnp.sum(p.eq_params["k2"])
    lo, hi = rec["sol"]
    spinn = rec.get("net") == "spinn"
    if spinn:
        u = make_poly_spinn(rec["coef"], nin, rec["spR"], rec["spM"], eq_type)
    else:
        u = make_pinn(rec["V"], eq_type, output_transform=ot, slice_solution=jnp.s_[lo - 1:hi])
    pshape = (1,) if rec.get("pshape") == "one" else ()
    kv = list(zip(pkeys, rec["th"]))
    if rec.get("pkrev"):
        kv = kv[::-1]             # the user's eq_params dictionary written in another key order than the batch dictionaries
    params = jinns.parameters.Params(nn_params=u.init_params(),
                                     eq_params={k: jnp.full(pshape, float(v)) for k, v in kv})
    R = rec["R"]

    def resid(inputs, uval, p):
        th = [jnp.squeeze(p.eq_params[k]) for k in pkeys]
        z = [inputs[i] for i in range(nin)] + [uval[i] for i in range(len(rec["V"]))] + th
        if rec.get("rshape") == "scalar":
            return polyeval(R[0], z)              # a single residual returned as a 0-d scalar
        return jnp.stack([polyeval(r, z) for r in R])

    het = None
    if any(len(h) for h in rec.get("het", [])):
        def mk_h(h):
            def fun(inputs, p):
                th = [jnp.squeeze(p.eq_params[k]) for k in pkeys]
                return polyeval(h, [inputs[i] for i in range(nin)] + th)
            if lkind == "ode":
                return lambda t, u, p: fun(jnp.atleast_1d(t), p)
            if lkind == "statio":
                return lambda x, u, p: fun(x, p)
            return lambda t, x, u, p: fun(jnp.concatenate([t, x]), p)
        het = {k: mk_h(h) for k, h in zip(pkeys, rec["het"]) if len(h)}
        if rec.get("hetmode") == "none_entries":
            het.update({k: None for k, h in zip(pkeys, rec["het"]) if not len(h)})
    dyn = None
    if R and spinn:
        def resid_grid(cols, uval, p):          # residual on the tensor grid spanned by the batch columns (time first)
            th = [jnp.squeeze(p.eq_params[k]) for k in pkeys]
            grids = jnp.meshgrid(*[cols[:, i] for i in range(nin)], indexing="ij")
            z = list(grids) + [uval[..., k] for k in range(rec["spM"])] + th
            return jnp.stack([polyeval(r, z) + 0.0 * grids[0] for r in R], axis=-1)
        if lkind == "statio":
            class Eq(PDEStatio):
                def equation(self, x, u, p):
                    return resid_grid(x, u(x, p), p)
        else:
            class Eq(PDENonStatio):
                def equation(self, t, x, u, p):
                    return resid_grid(jnp.concatenate([t, x], axis=1), u(t, x, p), p)
        dyn = Eq(Tmax=float(rec.get("Tmax", 1)))
    elif R:
        # ONE equation class per loss kind for the whole driver process (as a user would write it), the residual being instance data:
        # successive records are successive INSTANCES of the same class with different residuals and heterogeneity maps
        Eq = _user_equation_class(lkind)
        # Tmax is an attribute of the user's dynamic loss that ONLY the user's equation may use (ours does not): any value must give the same loss
        dyn = Eq(Tmax=float(rec.get("Tmax", 1)), eq_params_heterogeneity=het, resid=resid)

    def wt(v):
        return float(v[0]) if len(v) == 1 else jnp.array([float(a) for a in v])

    w = rec["w"]
    kw = {}
    # boundary specification
    if rec["bnd"] and any(b["kind"] != "none" for b in rec["bnd"]):
        def mk_f(b):
            g = b["g"]
            scalar = rec["gret"] == "scalar" and len(g) == 1

            def val(inputs):
                z = [inputs[..., i] for i in range(nin)]
                v = jnp.stack([polyeval(gc, z) + 0.0 * z[0] for gc in g], axis=-1)
                return v[..., 0] if scalar else v
            if has_t:
                return lambda t, dx: val(jnp.concatenate([t, dx], axis=-1))
            return lambda dx: val(dx)
        cname = lambda k: {"dirichlet": "dirichlet", "neumann": "von neumann", "none": None}[k]
        facets = ["xmin", "xmax", "ymin", "ymax"][: 2 * dim]
        def sel(b):      # component selection: a slice, or - for a single component - possibly a plain integer
            if rec.get("compform") == "int" and b["comp"][0] == b["comp"][1]:
                return b["comp"][0] - 1
            return jnp.s_[b["comp"][0] - 1:b["comp"][1]]
        if rec["bndform"] == "global":
            b0 = rec["bnd"][0]
            kw.update(omega_boundary_fun=mk_f(b0), omega_boundary_condition=cname(b0["kind"]), omega_boundary_dim=sel(b0))
        else:
            fb = list(zip(facets, rec["bnd"]))
            fb = [fb[i] for i in rec.get("keyorder", range(len(fb)))]          # insertion order of the user's dictionaries
            kw.update(omega_boundary_fun={k: (mk_f(b) if b["kind"] != "none" else None) for k, b in fb},
                      omega_boundary_condition={k: cname(b["kind"]) for k, b in fb},
                      omega_boundary_dim={k: sel(b) for k, b in fb})
    if rec["norm"]["on"]:
        samples = rec["cols_norm"] if spinn else rec["norm"]["samples"]
        kw.update(norm_samples=jnp.asarray(np.array(samples, dtype=np.float64)), norm_int_length=float(rec["norm"]["L"]))
    osl = rec["obsd"]["slice"]
    if lkind == "ode":
        lw = jinns.loss.LossWeightsODE(dyn_loss=wt(w["dyn"]), initial_condition=wt(w["ic"]), observations=wt(w["obs"]))
        ic = (float(rec["ic"]["t0"]), jnp.array([float(v) for v in rec["ic"]["u0"]])) if rec["ic"]["on"] else None
        loss = jinns.loss.LossODE(u=u, dynamic_loss=dyn, initial_condition=ic, loss_weights=lw, obs_slice=jnp.s_[osl[0] - 1:osl[1]], params=params,
                                  derivative_keys=derivative_keys)
    elif lkind == "statio":
        lw = jinns.loss.LossWeightsPDEStatio(dyn_loss=wt(w["dyn"]), norm_loss=wt(w["norm"]), boundary_loss=wt(w["bnd"]), observations=wt(w["obs"]))
        loss = jinns.loss.LossPDEStatio(u=u, dynamic_loss=dyn, loss_weights=lw, obs_slice=jnp.s_[osl[0] - 1:osl[1]], params=params,
                                        derivative_keys=derivative_keys, **kw)
    else:
        lw = jinns.loss.LossWeightsPDENonStatio(dyn_loss=wt(w["dyn"]), norm_loss=wt(w["norm"]), boundary_loss=wt(w["bnd"]),
                                                observations=wt(w["obs"]), initial_condition=wt(w["ic"]))
        if rec["ic"]["on"]:
            u0 = rec["ic"]["u0"]
            if rec.get("icret") == "grid":        # values on the grid of points, no component axis (one-output separable network)
                kw.update(initial_condition_fun=lambda x: polyeval(u0[0], [x[..., i] for i in range(dim)]) + 0.0 * x[..., 0])
            elif spinn:
                kw.update(initial_condition_fun=lambda x: jnp.stack([polyeval(c, [x[..., i] for i in range(dim)]) + 0.0 * x[..., 0] for c in u0], axis=-1))
            else:
                # plain networks: the initial function is a function of ONE point of shape (dim,) (it indexes the coordinates of that point)
                kw.update(initial_condition_fun=lambda x: jnp.stack([polyeval(c, [x[i] for i in range(dim)]) + 0.0 * x[0] for c in u0]))
        loss = jinns.loss.LossPDENonStatio(u=u, dynamic_loss=dyn, loss_weights=lw, obs_slice=jnp.s_[osl[0] - 1:osl[1]], params=params,
                                           derivative_keys=derivative_keys, **kw)
    # batch
    rows_inside = rec["cols_inside"] if spinn else rec["inside"]
    rows_border = rec.get("cols_border", []) if spinn else rec["border"]
    inside = np.array(rows_inside, dtype=np.float64).reshape(len(rows_inside), nin)
    border = None
    if rows_border:
        nb = len(rows_border[0])
        border = np.zeros((nb, nin, len(rows_border)))
        for f, rows in enumerate(rows_border):
            border[:, :, f] = np.array(rows, dtype=np.float64).reshape(nb, nin)
        border = jnp.asarray(border)
    if lkind == "ode":
        batch = ODEBatch(temporal_batch=jnp.asarray(inside[:, 0]))
    elif lkind == "statio":
        batch = PDEStatioBatch(inside_batch=jnp.asarray(inside), border_batch=border)
    else:
        batch = PDENonStatioBatch(times_x_inside_batch=jnp.asarray(inside), times_x_border_batch=border)
    if any(len(c) for c in rec["ptab"]):
        # the tagged tables hold integers: in every other structure they are passed with an INTEGER dtype (a table of counts / indices)
        pdt = np.int64 if rec.get("pint") else np.float64
        batch = append_param_batch(batch, {k: jnp.asarray(np.array(c, dtype=pdt))[:, None] for k, c in zip(pkeys, rec["ptab"]) if len(c)})
    if rec["obsd"]["on"]:
        o = rec["obsd"]
        batch = append_obs_batch(batch, {"pinn_in": jnp.asarray(np.array(o["in"], dtype=np.float64)),
                                         "val": jnp.asarray(np.array(o["val"], dtype=np.float64)),
                                         "eq_params": {k: jnp.asarray(np.array(c, dtype=np.float64))[:, None] for k, c in zip(pkeys, o["etab"]) if len(c)}})
    return loss, params, batch


def run_loss(rec):
    out = dict(rec)
    zero = dict(n=0, d=1, ok=True)
    try:
        loss, params, batch = build_loss(rec)
        if rec.get("call") == "reweighted":
            import copy

            import equinox as eqx
            rec0 = copy.deepcopy(rec)
            rec0["w"]["dyn"] = [0]
            loss0, _, _ = build_loss(rec0)
            loss = eqx.tree_at(lambda l: l.loss_weights, loss0, loss.loss_weights)
        total, terms = loss(params, batch) if rec.get("call", "evaluate") == "call" else loss.evaluate(params, batch)
    except Exception as ex:  # noqa
        out["obs"] = dict(total=zero, **{k: zero for k in NAMES})
        out["exc"] = f"{type(ex).__name__}: {str(ex)[:200]}"
        return out
    obs = {k: (frac(terms[k]) if k in terms else zero) for k in NAMES}
    obs["total"] = frac(total)
    out["obs"] = obs
    out["exc"] = ""
    return out


# ---------------------------------------------------------------------------------- C13 systems
def build_sysloss(rec, dk_dict=None, onehot=None):
    import warnings

    spinn = False

    import jax.numpy as jnp
    import jinns
    from jinns.data._Batchs import ODEBatch, PDEStatioBatch, PDENonStatioBatch
    from jinns.data._DataGenerators import append_obs_batch, append_param_batch
    from jinns.loss import ODE, PDEStatio, PDENonStatio

    warnings.simplefilter("ignore")
    lkind, dim = rec["lkind"], rec["dim"]
    has_t = lkind != "statio"
    nin = dim + (1 if has_t else 0)
    eq_type = {"ode": "ODE", "statio": "statio_PDE", "nonstatio": "nonstatio_PDE"}[lkind]
    pkeys = ["k1", "k2"]
    names = [n["name"] for n in rec["nets"]]
    aff = (lambda i, o, p: o * p.eq_params["k1"] + p.eq_params["k2"]) if rec.get("ot") == "affine" else None
    shared = bool(rec.get("shared"))
    if shared:
        # ONE network whose outputs are the unknowns (as create_PINN(shared_pinn_outputs=...) builds them): every PINN holds the same
        # network and its own output slice; as documented the user passes the SAME parameter set under every key
        allf = [n["V"] for n in rec["nets"]]
        u_dict = {n["name"]: make_pinn(allf, eq_type, output_transform=aff, output_slice=jnp.s_[j:j + 1]) for j, n in enumerate(rec["nets"])}
        common = next(iter(u_dict.values())).init_params()
        pd = jinns.parameters.ParamsDict(nn_params={k: common for k in u_dict},
                                         eq_params={k: jnp.array(float(v)) for k, v in zip(pkeys, rec["th"])})
    else:
        u_dict = {n["name"]: make_pinn([n["V"]] + ([n["V2"]] if "V2" in n else []), eq_type, output_transform=aff) for n in rec["nets"]}
        pd = jinns.parameters.ParamsDict(nn_params={k: u.init_params() for k, u in u_dict.items()},
                                         eq_params={k: jnp.array(float(v)) for k, v in zip(pkeys, rec["th"])})

    def mk_eq(R, scalar=False, het=None):
        hmap = None
        if het and any(len(h) for h in het):
            def mk_h(h):
                fun = lambda inputs, p: polyeval(h, [inputs[i] for i in range(nin)] + [jnp.squeeze(p.eq_params[k]) for k in pkeys])
                if lkind == "ode":
                    return lambda t, ud, p: fun(jnp.atleast_1d(t), p)
                if lkind == "statio":
                    return lambda x, ud, p: fun(x, p)
                return lambda t, x, ud, p: fun(jnp.concatenate([t, x]), p)
            hmap = {k: mk_h(h) for k, h in zip(pkeys, het) if len(h)}

        def resid(inputs, ud, p):
            th = [jnp.squeeze(p.eq_params[k]) for k in pkeys]
            us = []
            for nm in names:
                pp = p.extract_params(nm)
                if lkind == "ode":
                    us.append(ud[nm](inputs, pp)[0])
                elif lkind == "statio":
                    us.append(ud[nm](inputs, pp)[0])
                else:
                    us.append(ud[nm](inputs[:1], inputs[1:], pp)[0])
            val = polyeval(R, [inputs[i] for i in range(nin)] + us + th)
            return val if scalar else jnp.stack([val])   # residual of shape (1,), or a 0-d scalar
        if lkind == "ode":
            class Eq(ODE):
                def equation(self, t, ud, p):
                    return resid(jnp.atleast_1d(t), ud, p)
        elif lkind == "statio":
            class Eq(PDEStatio):
                def equation(self, x, ud, p):
                    return resid(x, ud, p)
        else:
            class Eq(PDENonStatio):
                def equation(self, t, x, ud, p):       # documented order: (t, x, u_dict, params_dict)
                    return resid(jnp.concatenate([t, x]), ud, p)
        return Eq(Tmax=float(rec.get("Tmax", 1)), eq_params_heterogeneity=hmap)

    dyn = {e["name"]: mk_eq(e["R"], bool(e.get("scalar")), e.get("het")) for e in rec["eqs"]}
    kw = {}
    scalar = rec["wform"] != "dict"
    rev = (lambda items: list(items)[::-1]) if rec.get("wrev") else (lambda items: list(items))
    wdyn = float(rec["eqs"][0]["w"]) if scalar else {e["name"]: float(e["w"]) for e in rev(rec["eqs"])}
    wu = lambda f: float(rec["wu"][0][f]) if scalar else {n: float(w[f]) for n, w in rev(zip(names, rec["wu"]))}
    if onehot is not None:            # unit weights; for the per-unknown terms only the designated unknown counts
        wdyn = 1.0
        wu = lambda f: ({n: (1.0 if n == onehot else 0.0) for n in names} if onehot != "*" else 1.0)
    if dk_dict is not None:
        kw["derivative_keys_dict"] = dk_dict
    if any("V2" in n for n in rec["nets"]):       # per-unknown observation slices
        kw["obs_slice_dict"] = {n["name"]: jnp.s_[n["obsd"]["slice"][0] - 1:n["obsd"]["slice"][1]] for n in rec["nets"]}
    wf = rec["wform"] if onehot is None else "scalar"
    if lkind == "ode":
        if wf == "nodyn":
            lw = jinns.loss.LossWeightsODEDict(initial_condition=float(rec["wu"][0]["ic"]), observations=float(rec["wu"][0]["obs"]))
        elif wf == "nocons":
            lw = jinns.loss.LossWeightsODEDict(dyn_loss=float(rec["eqs"][0]["w"]))
        else:
            lw = jinns.loss.LossWeightsODEDict(dyn_loss=wdyn, initial_condition=wu("ic"), observations=wu("obs"))
        ic = {n["name"]: ((float(n["ic"]["t0"]), jnp.array([float(v) for v in n["ic"]["u0"]])) if n["ic"]["on"] else None) for n in rec["nets"]}
        if all(v is None for v in ic.values()):
            ic = None
        loss = jinns.loss.SystemLossODE(u_dict=u_dict, dynamic_loss_dict=dyn, initial_condition_dict=ic, loss_weights=lw, params_dict=pd, **kw)
    else:
        w0 = rec["wu"][0]
        if wf == "nodyn":
            lw = jinns.loss.LossWeightsPDEDict(dyn_loss=None, norm_loss=float(w0["norm"]), boundary_loss=float(w0["bnd"]),
                                              observations=float(w0["obs"]), initial_condition=float(w0["ic"]))
        elif wf == "nocons":
            lw = jinns.loss.LossWeightsPDEDict(dyn_loss=float(rec["eqs"][0]["w"]))
        else:
            lw = jinns.loss.LossWeightsPDEDict(dyn_loss=wdyn, norm_loss=wu("norm"), boundary_loss=wu("bnd"), observations=wu("obs"),
                                              initial_condition=wu("ic"))
        if any(n["bnd"] and n["bnd"][0]["kind"] != "none" for n in rec["nets"]):
            def mk_f(g):
                def val(inputs):
                    return jnp.stack([polyeval(g[0], [inputs[i] for i in range(nin)])])
                return (lambda t, dx: val(jnp.concatenate([t, dx]))) if has_t else (lambda dx: val(dx))
            cname = {"dirichlet": "dirichlet", "neumann": "von neumann"}
            act = lambda n: n["bnd"] and n["bnd"][0]["kind"] != "none"
            kw.update(omega_boundary_fun_dict={n["name"]: (mk_f(n["bnd"][0]["g"]) if act(n) else None) for n in rec["nets"]},
                      omega_boundary_condition_dict={n["name"]: (cname[n["bnd"][0]["kind"]] if act(n) else None) for n in rec["nets"]},
                      omega_boundary_dim_dict={n["name"]: (jnp.s_[n["bnd"][0]["comp"][0] - 1:n["bnd"][0]["comp"][1]] if act(n) else None)
                                               for n in rec["nets"]})
        if any(n.get("norm", {}).get("on") for n in rec["nets"]):
            kw.update(norm_samples_dict={n["name"]: (jnp.asarray(np.array(n["norm"]["samples"], dtype=np.float64)) if n.get("norm", {}).get("on") else None)
                                         for n in rec["nets"]},
                      norm_int_length_dict={n["name"]: (float(n["norm"]["L"]) if n.get("norm", {}).get("on") else None) for n in rec["nets"]})
        if lkind == "nonstatio" and any(n["ic"]["on"] for n in rec["nets"]):
            def mk_u0(n):
                u0 = n["ic"]["u0"]
                return lambda x: jnp.stack([polyeval(u0[0], [x[i] for i in range(dim)])])
            kw.update(initial_condition_fun_dict={n["name"]: (mk_u0(n) if n["ic"]["on"] else None) for n in rec["nets"]})
        loss = jinns.loss.SystemLossPDE(u_dict=u_dict, dynamic_loss_dict=dyn, loss_weights=lw, params_dict=pd, **kw)
    rows_inside = rec["cols_inside"] if spinn else rec["inside"]
    rows_border = rec.get("cols_border", []) if spinn else rec["border"]
    inside = np.array(rows_inside, dtype=np.float64).reshape(len(rows_inside), nin)
    border = None
    if rows_border:
        nb = len(rows_border[0])
        border = np.zeros((nb, nin, len(rows_border)))
        for f, rows in enumerate(rows_border):
            border[:, :, f] = np.array(rows, dtype=np.float64).reshape(nb, nin)
        border = jnp.asarray(border)
    if lkind == "ode":
        batch = ODEBatch(temporal_batch=jnp.asarray(inside[:, 0]))
    elif lkind == "statio":
        batch = PDEStatioBatch(inside_batch=jnp.asarray(inside), border_batch=border)
    else:
        batch = PDENonStatioBatch(times_x_inside_batch=jnp.asarray(inside), times_x_border_batch=border)
    if any(len(c) for c in rec["ptab"]):
        batch = append_param_batch(batch, {k: jnp.asarray(np.array(c, dtype=np.float64))[:, None] for k, c in zip(pkeys, rec["ptab"]) if len(c)})
    if any(n["obsd"]["on"] for n in rec["nets"]):
        ob = {}
        for n in rec["nets"]:
            o = n["obsd"]
            ob[n["name"]] = ({"pinn_in": jnp.asarray(np.array(o["in"], dtype=np.float64)), "val": jnp.asarray(np.array(o["val"], dtype=np.float64)),
                              "eq_params": {}} if o["on"] else None)
        batch = append_obs_batch(batch, ob)
    return loss, pd, batch


def run_sysloss(rec):
    out = dict(rec)
    zero = dict(n=0, d=1, ok=True)
    try:
        loss, pd, batch = build_sysloss(rec)
        total, terms = loss.evaluate(pd, batch)
    except Exception as ex:  # noqa
        out["obs"] = dict(total=zero, **{k: zero for k in NAMES})
        out["exc"] = f"{type(ex).__name__}: {str(ex)[:200]}"
        return out
    obs = {k: (frac(terms[k]) if k in terms else zero) for k in NAMES}
    obs["total"] = frac(total)
    out["obs"] = obs
    out["exc"] = ""
    return out


RUNNERS = dict(operator=run_operator, loss=run_loss, sysloss=run_sysloss)


def run_case(rec):
    """an exception that escapes a runner and was raised INSIDE jinns (typically by a constructor) is a datum: the record comes back
    with `exc` set and the monitor names it (<Kind>Raised); an exception of the harness itself is a driver crash"""
    import os
    import traceback

    try:
        return RUNNERS[rec["kind"]](rec)
    except Exception as ex:  # noqa
        frames = traceback.extract_tb(ex.__traceback__)
        inside = [f for f in frames if os.sep + "jinns" + os.sep in f.filename and "/verif/" not in f.filename]
        if not inside or "/verif/" in frames[-1].filename:
            raise
        kind = {"gradbatch": "grad", "sysgradbatch": "grad"}.get(rec["kind"], rec["kind"])
        out = {k: v for k, v in rec.items() if k != "masks"}
        out.update(kind=kind, exc=f"{type(ex).__name__} at {os.path.basename(inside[-1].filename)}:{inside[-1].lineno}: {str(ex)[:160]}",
                   src=rec.get("src", "tlc"))
        if kind == "grad":
            out.update(form="bool", mask=[], G=[], ref=[], obs=dict(total=dict(n=0, d=1, ok=True), terms=[], grad=[]))
            return dict(_many=[out])
        return out


# ---------------------------------------------------------------------------------- C13: one-equation one-unknown system = plain loss
def run_sysplain(rec):
    """differential clause of C13 on REAL networks (MLP PINN / hyper-network PINN, float weights): a one-equation one-unknown
    SystemLossPDE / SystemLossODE must return the terms of the plain loss built from the same pieces.  No polynomial oracle here:
    the two objects are compared with each other (relative 1e-9 under x64)."""
    import warnings

    import equinox as eqx
    import jax
    import jax.numpy as jnp
    import jinns
    from jinns.data._Batchs import ODEBatch, PDENonStatioBatch, PDEStatioBatch
    from jinns.data._DataGenerators import append_param_batch
    from jinns.loss import ODE, PDENonStatio, PDEStatio

    warnings.simplefilter("ignore")
    out = dict(rec)
    out["ok"], out["exc"], out["detail"] = True, "", ""
    lk, net, seed, pb = rec["lkind"], rec["net"], rec["seed"], rec["pbatch"]
    if lk == "mixed":
        return _run_sysmixed(rec, out)
    try:
        key = jax.random.PRNGKey(seed)
        dim = 0 if lk == "ode" else 1 + seed % 2
        nin = dim + (0 if lk == "statio" else 1)
        eq_type = {"ode": "ODE", "statio": "statio_PDE", "nonstatio": "nonstatio_PDE"}[lk]
        eqx_list = ((eqx.nn.Linear, nin, 3), (jax.nn.tanh,), (eqx.nn.Linear, 3, 1))
        if net == "hyper":
            u = jinns.utils.create_HYPERPINN(key, eqx_list, eq_type, ["nu"], 1, dim,
                                             eqx_list_hyper=((eqx.nn.Linear, 1, 4), (jax.nn.tanh,), (eqx.nn.Linear, 4, 1000)))
        else:
            u = jinns.utils.create_PINN(key, eqx_list, eq_type, dim)
        eqp = {"nu": jnp.array(0.7), "a": jnp.array(-0.4)}

        def resid(val, inputs, p):
            return val * p.eq_params["nu"] + jnp.sum(inputs) ** 2 - p.eq_params["a"]

        def call(net_, inputs, p):
            if lk == "nonstatio":
                return net_(inputs[:1], inputs[1:], p)
            return net_(inputs, p)
        base = {"ode": ODE, "statio": PDEStatio, "nonstatio": PDENonStatio}[lk]

        class Plain(base):
            def equation(self, *a):
                *xs, net_, p = a
                inputs = jnp.concatenate([jnp.atleast_1d(v) for v in xs])
                return resid(call(net_, inputs, p), inputs, p)

        class Sys(base):
            def equation(self, *a):
                *xs, nets, pd = a
                inputs = jnp.concatenate([jnp.atleast_1d(v) for v in xs])
                p = pd.extract_params("u1")
                return resid(call(nets["u1"], inputs, p), inputs, p)

        n = 4
        pts = jax.random.uniform(jax.random.PRNGKey(seed + 1), (n, max(nin, 1)), minval=0.1, maxval=0.9)
        params = jinns.parameters.Params(nn_params=u.init_params(), eq_params=eqp)
        pdict = jinns.parameters.ParamsDict(nn_params={"u1": u.init_params()}, eq_params=eqp)
        kwp, kws = {}, {}
        if lk == "ode":
            batch = ODEBatch(temporal_batch=pts[:, 0])
            ic = (0.0, jnp.array([0.3]))
            plain = jinns.loss.LossODE(u=u, dynamic_loss=Plain(Tmax=1), initial_condition=ic, params=params)
            syst = jinns.loss.SystemLossODE(u_dict={"u1": u}, dynamic_loss_dict={"e": Sys(Tmax=1)}, initial_condition_dict={"u1": ic},
                                            loss_weights=jinns.loss.LossWeightsODEDict(dyn_loss=1.0, initial_condition=1.0, observations=1.0),
                                            params_dict=pdict)
        else:
            border = jnp.stack([jnp.concatenate([pts[:, :nin - dim], jnp.full((n, dim), v)], axis=1) for v in ([0.0, 1.0] if dim == 1 else [0.0, 1.0, 0.0, 1.0])],
                               axis=-1)
            f = (lambda t, dx: jnp.array([0.2])) if lk == "nonstatio" else (lambda dx: jnp.array([0.2]))
            if lk == "statio":
                batch = PDEStatioBatch(inside_batch=pts, border_batch=border)
                plain = jinns.loss.LossPDEStatio(u=u, dynamic_loss=Plain(Tmax=1), omega_boundary_fun=f, omega_boundary_condition="dirichlet", params=params)
            else:
                batch = PDENonStatioBatch(times_x_inside_batch=pts, times_x_border_batch=border)
                kwp = dict(initial_condition_fun=lambda x: jnp.array([0.1]) + jnp.sum(x))
                kws = dict(initial_condition_fun_dict={"u1": kwp["initial_condition_fun"]})
                plain = jinns.loss.LossPDENonStatio(u=u, dynamic_loss=Plain(Tmax=1), omega_boundary_fun=f, omega_boundary_condition="dirichlet",
                                                    params=params, **kwp)
            syst = jinns.loss.SystemLossPDE(u_dict={"u1": u}, dynamic_loss_dict={"e": Sys(Tmax=1)}, omega_boundary_fun_dict={"u1": f},
                                            omega_boundary_condition_dict={"u1": "dirichlet"}, loss_weights=jinns.loss.LossWeightsPDEDict(),
                                            params_dict=pdict, **kws)
        if pb:
            batch = append_param_batch(batch, {"nu": (0.5 + jnp.arange(n) / 3.0)[:, None]})
        tp, dp = plain.evaluate(params, batch)
        ts, ds = syst.evaluate(pdict, batch)
        bad = []
        for k_, v in dict(dp, total=tp).items():
            w = ds.get(k_, 0.0) if k_ != "total" else ts
            if not bool(jnp.allclose(jnp.asarray(v), jnp.asarray(w), rtol=1e-9, atol=1e-12)):
                bad.append(f"{k_}: plain {float(v):.12g} system {float(w):.12g}")
        if bad:
            out["ok"], out["detail"] = False, "; ".join(bad)
    except Exception as ex:  # noqa
        import os
        import traceback
        frames = traceback.extract_tb(ex.__traceback__)
        if not any(os.sep + "jinns" + os.sep in f.filename and "/verif/" not in f.filename for f in frames):
            raise
        out["exc"] = f"{type(ex).__name__}: {str(ex)[:200]}"
    return out


def _run_sysmixed(rec, out):
    """a MIXED system: a stationary unknown k(x) (first key, observed) and a non-stationary unknown u(t, x) (initial condition, observed),
    one equation using both.  The initial-condition and observation terms of the system must be the weighted sums of the terms of the
    single-network losses built from the same pieces (relative 1e-9 under x64)."""
    import equinox as eqx
    import jax
    import jax.numpy as jnp
    import jinns
    from jinns.data._Batchs import PDENonStatioBatch
    from jinns.data._DataGenerators import append_obs_batch
    from jinns.loss import PDENonStatio

    seed = rec["seed"]
    try:
        dim = 1
        k1, k2 = jax.random.split(jax.random.PRNGKey(seed))
        ks = jinns.utils.create_PINN(k1, ((eqx.nn.Linear, dim, 3), (jax.nn.tanh,), (eqx.nn.Linear, 3, 1)), "statio_PDE", dim)
        un = jinns.utils.create_PINN(k2, ((eqx.nn.Linear, 1 + dim, 3), (jax.nn.tanh,), (eqx.nn.Linear, 3, 1)), "nonstatio_PDE", dim)
        names = ("a_k", "u") if rec["net"] == "kfirst" else ("z_k", "u")         # the stationary unknown sorts first / last
        nk, nu_ = names

        class Eq(PDENonStatio):
            def equation(self, t, x, nets, pd):
                return nets[nu_](t, x, pd.extract_params(nu_)) * nets[nk](x, pd.extract_params(nk)) - jnp.sum(x)

        n = 4
        pts = jax.random.uniform(jax.random.PRNGKey(seed + 1), (n, 1 + dim), minval=0.1, maxval=0.9)
        u0 = lambda x: jnp.array([0.1]) + jnp.sum(x)
        u_dict = {nk: ks, nu_: un} if rec["net"] == "kfirst" else {nu_: un, nk: ks}
        pdict = jinns.parameters.ParamsDict(nn_params={k: v.init_params() for k, v in u_dict.items()}, eq_params={})
        wic, wobs = {nk: 1.0, nu_: 3.0}, {nk: 2.0, nu_: 5.0}
        syst = jinns.loss.SystemLossPDE(u_dict=u_dict, dynamic_loss_dict={"e": Eq(Tmax=1)}, initial_condition_fun_dict={nk: None, nu_: u0},
                                        loss_weights=jinns.loss.LossWeightsPDEDict(dyn_loss=1.0, initial_condition=wic, observations=wobs,
                                                                                   norm_loss=1.0, boundary_loss=1.0),
                                        params_dict=pdict)
        batch = PDENonStatioBatch(times_x_inside_batch=pts, times_x_border_batch=None)
        obs_k = {"pinn_in": pts[:, 1:], "val": jnp.linspace(0.2, 0.8, n)[:, None], "eq_params": {}}
        obs_u = {"pinn_in": pts, "val": jnp.linspace(-0.3, 0.5, n)[:, None], "eq_params": {}}
        batch = append_obs_batch(batch, {nk: obs_k, nu_: obs_u})
        ts, ds = syst.evaluate(pdict, batch)
        # single-network references
        pk = jinns.parameters.Params(nn_params=ks.init_params(), eq_params={})
        pu = jinns.parameters.Params(nn_params=un.init_params(), eq_params={})
        lk_ = jinns.loss.LossPDEStatio(u=ks, dynamic_loss=None, params=pk)
        lu_ = jinns.loss.LossPDENonStatio(u=un, dynamic_loss=None, initial_condition_fun=u0, params=pu)
        from jinns.data._Batchs import PDEStatioBatch
        bk = append_obs_batch(PDEStatioBatch(inside_batch=pts[:, 1:], border_batch=None), obs_k)
        bu = append_obs_batch(PDENonStatioBatch(times_x_inside_batch=pts, times_x_border_batch=None), obs_u)
        _, dk = lk_.evaluate(pk, bk)
        _, du = lu_.evaluate(pu, bu)
        want = dict(initial_condition=wic[nu_] * du["initial_condition"], observations=wobs[nk] * dk["observations"] + wobs[nu_] * du["observations"])
        bad = [f"{k_}: single-network losses {float(v):.12g} system {float(ds[k_]):.12g}" for k_, v in want.items()
               if not bool(jnp.allclose(jnp.asarray(v), jnp.asarray(ds[k_]), rtol=1e-9, atol=1e-12))]
        if float(want["initial_condition"]) == 0.0 or float(want["observations"]) == 0.0:
            raise RuntimeError("vacuous mixed-system reference")
        if bad:
            out["ok"], out["detail"] = False, "; ".join(bad)
    except Exception as ex:  # noqa
        import os
        import traceback
        frames = traceback.extract_tb(ex.__traceback__)
        if not any(os.sep + "jinns" + os.sep in f.filename and "/verif/" not in f.filename for f in frames):
            raise
        out["exc"] = f"{type(ex).__name__}: {str(ex)[:200]}"
    return out


RUNNERS["sysplain"] = run_sysplain


# ---------------------------------------------------------------------------------- C06
def _grad_problem(lkind, seed, pbatch=False):
    """a loss whose every (term, group) pair has a non-zero gradient: u = V * k1 + k2 (affine output transform),
    residual depending on u, k1, k2; all terms configured"""
    import random

    from . import lossrec

    rng = random.Random(f"grad|{lkind}|{seed}")
    jit = rng.randint(0, 2)
    dim = 0 if lkind == "ode" else 1
    has_t = lkind != "statio"
    nin = dim + (1 if has_t else 0)
    r = lossrec.base_record(rng, lkind, dim, nout=1, ot="affine", npar=2, nres=1)
    r["V"] = [[dict(c=2 + jit, e=[1] + [0] * (nin - 1)), dict(c=1, e=[0] * (nin - 1) + [1]), dict(c=1 + jit, e=[0] * nin)]]
    nv = nin + 1 + 2
    e_u = [0] * nv
    e_u[nin] = 1
    e_k1 = [0] * nv
    e_k1[nin + 1] = 1
    e_k2x = [0] * nv
    e_k2x[nin + 2] = 1
    e_k2x[0] = 1
    r["R"] = [[dict(c=1, e=e_u), dict(c=2, e=e_k1), dict(c=1, e=e_k2x)]]
    r["th"] = [2, 3]
    lossrec.set_inside(r, rng, 2)
    obsk = pbatch == "obsk"
    if pbatch:
        # metamodelling: a THIRD equation parameter k3 arrives with the batch (one row per point) - or, `obsk`, with the OBSERVATIONS (one
        # observed value per observation row); it enters the residual only and is not one of the groups the masks range over.
        # Every term is then evaluated through its vmapped-parameters path (`obsk`: the observation term only).
        r["th"] = [2, 3, 5]
        r["ptab"] = [[], [], [] if obsk else [rng.choice([1, 2]), rng.choice([3, 4])]]
        r["het"] = [[], [], []]
        r["obsd"]["etab"] = [[], [], []]
        e_k3 = [0] * (nv + 1)
        e_k3[nin + 3] = 1
        r["R"] = [[dict(c=t["c"], e=t["e"] + [0]) for t in r["R"][0]] + [dict(c=1, e=e_k3)]]
    if lkind == "ode":
        r["ic"] = dict(on=True, t0=1, u0=[1])
    if lkind == "nonstatio":
        r["ic"] = dict(on=True, t0=0, u0=[[dict(c=1, e=[1])]])
    if lkind != "ode":
        r["norm"] = dict(on=True, samples=[[0], [1]], L=2)
        lossrec.set_border(r, rng, 1, 2 if (pbatch and lkind == "nonstatio") else 1)
        if pbatch and lkind == "statio":
            r["border"] = [rows + rows for rows in r["border"]]      # as many border rows as parameter rows
        r["bnd"] = [dict(kind="dirichlet", g=[[dict(c=1, e=[0] * nin)]], comp=[1, 1]) for _ in range(2)]
    r["obsd"] = dict(on=True, **{"in": [[1] * nin, [2] + [0] * (nin - 1)]}, val=[[1], [-2]], slice=[1, 1], etab=[[] for _ in r["th"]])
    if obsk:
        r["obsd"]["etab"][2] = [4, 7]
    return r


TERMS = dict(ode=["dyn_loss", "initial_condition", "observations"],
             statio=["dyn_loss", "norm_loss", "boundary_loss", "observations"],
             nonstatio=["dyn_loss", "norm_loss", "boundary_loss", "observations", "initial_condition"])


def run_gradbatch(task):
    """task: dict(kind='gradbatch', lkind, masks=[mask...], form='bool'|'str'|'default', seed)"""
    import equinox as eqx
    import jax
    import jax.numpy as jnp
    import jinns
    from jinns.parameters import DerivativeKeysODE, DerivativeKeysPDEStatio, DerivativeKeysPDENonStatio, Params

    lkind = task["lkind"]
    terms = TERMS[lkind]
    DK = dict(ode=DerivativeKeysODE, statio=DerivativeKeysPDEStatio, nonstatio=DerivativeKeysPDENonStatio)[lkind]
    field = dict(dyn_loss="dyn_loss", initial_condition="initial_condition", observations="observations", norm_loss="norm_loss",
                 boundary_loss="boundary_loss")

    pbatch = task.get("pbatch") or False          # False | True (parameter batch) | "obsk" (observed equation parameter)

    def mk_mask(m):  # m: [nn, k1, k2] booleans (python or traced)
        return Params(nn_params=m[0], eq_params=dict({"k1": m[1], "k2": m[2]}, **({"k3": True} if pbatch else {})))

    def flat(g):
        return [np.asarray(g.nn_params.C).ravel(), np.asarray(g.eq_params["k1"]).ravel(), np.asarray(g.eq_params["k2"]).ravel()]

    # the numeric content is re-drawn (deterministically) until every (term, group) pair has a non-zero gradient
    for attempt in range(25):
        rec = _grad_problem(lkind, f"{task.get('seed', 0)}/{attempt}", pbatch)
        loss0, params, batch = build_loss(rec)

        def with_keys(dk, loss0=loss0):
            return eqx.tree_at(lambda l: l.derivative_keys, loss0, dk)

        full = with_keys(DK(**{field[t]: mk_mask([True, True, True]) for t in terms}))
        ref_vals = full.evaluate(params, batch)[1]
        G = []
        for t in terms:
            g = jax.grad(lambda p: full.evaluate(p, batch)[1][t])(params)
            G.append([fracs(v) for v in flat(g)])
        if not any(all(q["n"] == 0 for q in grp) for row in G for grp in row):
            break
    else:
        # with EVERYTHING selected some (term, group) pair has an exactly zero gradient on 25 independently drawn problems in which
        # every term depends on every group by construction (u = V * k1 + k2): the selected pair does not receive its gradient
        m0 = task["masks"][0]
        return dict(_many=[dict(kind="grad", lkind=lkind, mask=m0["mask"], form=m0.get("form", "bool"), G=G, ref=[frac(ref_vals[t]) for t in terms],
                                obs=dict(total=dict(n=0, d=1, ok=True), terms=[], grad=[]), src=m0.get("src", "tlc"),
                                exc="SelectedPairGradientIsZero: with every (term, group) pair selected the gradient of a term w.r.t. a group it "
                                    "depends on is exactly zero on 25 independently drawn problems")])
    ref = [frac(ref_vals[t]) for t in terms]

    @jax.jit
    def total_grad(mflat):
        dk = DK(**{field[t]: mk_mask([mflat[3 * k], mflat[3 * k + 1], mflat[3 * k + 2]]) for k, t in enumerate(terms)})
        l = with_keys(dk)
        (tot, tv), g = jax.value_and_grad(lambda p: l.evaluate(p, batch), has_aux=True)(params)
        return tot, [tv[t] for t in terms], g

    outs = []
    for m in task["masks"]:
        out = dict(kind="grad", lkind=lkind, mask=m["mask"], form=m.get("form", "bool"), G=G, ref=ref, exc="", src=m.get("src", "tlc"))
        try:
            form = m.get("form", "bool")
            if form == "bool":
                tot, tv, g = total_grad(jnp.asarray(np.array(m["mask"], dtype=bool).ravel()))
            else:
                if form == "default":
                    l = eqx.tree_at(lambda l: l.derivative_keys, loss0, DK(params=params))
                elif form == "bool_partial":      # the plain constructor with only SOME terms given as boolean trees: the others default
                    l = with_keys(DK(params=params, **{field[t]: mk_mask([bool(v) for v in m["mask"][k]])
                                                       for k, t in enumerate(terms) if m["given"][k]}))
                elif form == "bool_rev":   # boolean tree whose equation-parameter keys are written in another order than params
                    def mk_rev(b):
                        return Params(nn_params=bool(b[0]), eq_params=dict({"k2": bool(b[2]), "k1": bool(b[1])}, **({"k3": True} if pbatch else {})))
                    # built through the constructor: a pytree round trip (tree_at / jit) would re-sort the user's keys
                    l, _, _ = build_loss(rec, derivative_keys=DK(**{field[t]: mk_rev(m["mask"][k]) for k, t in enumerate(terms)}))
                else:  # the string form of each term
                    # None: the argument is omitted; "TREE": this term is given as a boolean tree next to the strings (documented mix)
                    strs = {field[t]: (mk_mask([bool(v) for v in m["mask"][k]]) if m["strs"][k] == "TREE" else m["strs"][k])
                            for k, t in enumerate(terms) if m["strs"][k] is not None}
                    if m.get("pos"):      # every specification given POSITIONALLY, in the documented order of from_str
                        order = dict(ode=["dyn_loss", "observations", "initial_condition"],
                                     statio=["dyn_loss", "observations", "boundary_loss", "norm_loss"],
                                     nonstatio=["dyn_loss", "observations", "boundary_loss", "norm_loss", "initial_condition"])[lkind]
                        l = with_keys(DK.from_str(params, *[strs[f] for f in order]))
                    else:
                        l = with_keys(DK.from_str(params=params, **strs))
                (tot, tvd), g = jax.value_and_grad(lambda p: l.evaluate(p, batch), has_aux=True)(params)
                tv = [tvd[t] for t in terms]
            out["obs"] = dict(total=frac(tot), terms=[frac(v) for v in tv], grad=[fracs(v) for v in flat(g)])
        except Exception as ex:  # noqa
            out["obs"] = dict(total=dict(n=0, d=1, ok=True), terms=[], grad=[])
            out["exc"] = f"{type(ex).__name__}: {str(ex)[:200]}"
        outs.append(out)
    return dict(_many=outs)


RUNNERS["gradbatch"] = run_gradbatch


# ---------------------------------------------------------------------------------- C02 equations
def run_equation(rec):
    import jax
    import jax.numpy as jnp
    import jinns
    from jinns.loss import (BurgerEquation, FisherKPP, GeneralizedLotkaVolterra, MassConservation2DStatio, NavierStokes2DStatio,
                            OU_FPENonStatioLoss2D)

    qf = lambda q: q["n"] / q["d"]
    eq, T, par = rec["eq"], float(rec["Tmax"]), rec["par"]
    out = dict(rec)
    try:
        pts = jnp.asarray(np.array(rec["pts"], dtype=np.float64))
        if eq in ("burgers", "fisher", "ou"):
            sliced = eq == "burgers" and rec.get("layout") == "sliced"
            # sliced: a two-output network whose SECOND output is the solution (slice_solution = [1:2]); the documented residual is the
            # component of the returned vector at the solution's index
            u = make_pinn([rec["D"]] + rec["U"], "nonstatio_PDE", slice_solution=jnp.s_[1:2]) if sliced else make_pinn(rec["U"], "nonstatio_PDE")
            if eq == "burgers":
                dl = BurgerEquation(Tmax=T)
                ep = {"nu": jnp.array(qf(par["nu"]))}
            elif eq == "fisher":
                dl = FisherKPP(Tmax=T)
                ep = {"D": jnp.array(qf(par["D"])), "r": jnp.array(qf(par["r"])), "g": jnp.array(qf(par["g"]))}
            else:
                dl = OU_FPENonStatioLoss2D(Tmax=T)
                ep = {k: jnp.array([qf(v) for v in par[k]]) for k in ("alpha", "mu", "sigma")}
            params = jinns.parameters.Params(nn_params=u.init_params(), eq_params=ep)
            vals = jax.vmap(lambda p: jnp.ravel(dl.evaluate(p[:1], p[1:], u, params)))(pts)
            if sliced:
                vals = vals[:, 1:2]
        elif eq == "masscons":
            u = make_pinn(rec["U"], "statio_PDE")
            other = make_pinn([rec["U"][1], rec["U"][0]], "statio_PDE")
            ud = {"u": u} if rec["layout"] == "single" else {"a": other, "u": u}
            pd = jinns.parameters.ParamsDict(nn_params={k: v.init_params() for k, v in ud.items()}, eq_params={})
            dl = MassConservation2DStatio(Tmax=T, nn_key="u")
            vals = jax.vmap(lambda p: jnp.ravel(dl.evaluate(p, ud, pd)))(pts)
        elif eq == "ns":
            u = make_pinn(rec["U"], "statio_PDE")
            p = make_pinn([rec["P"]], "statio_PDE")
            if rec["layout"] == "u_first":
                ud, uk, pk = {"u": u, "p": p}, "u", "p"
            else:
                ud, uk, pk = {"a_p": p, "b_u": u}, "b_u", "a_p"
            pd = jinns.parameters.ParamsDict(nn_params={k: v.init_params() for k, v in ud.items()},
                                             eq_params={"rho": jnp.array(qf(par["rho"])), "nu": jnp.array(qf(par["nu"]))})
            dl = NavierStokes2DStatio(Tmax=T, u_key=uk, p_key=pk)
            vals = jax.vmap(lambda q: jnp.ravel(dl.evaluate(q, ud, pd)))(pts)
        else:  # glv; rec.U = [main, others in keys_other order]
            lay = rec["layout"]
            names = {"flat_main1": ["s1", "s2", "s3"], "flat_main2": ["s2", "s3", "s1"], "nested_main1": ["s1", "s2", "s3"],
                     "nested_main3": ["s3", "s1", "s2"]}[lay]
            nets = {n: make_pinn([U], "ODE") for n, U in zip(names, rec["U"])}
            if lay in ("flat_main2", "nested_main3"):
                # a bystander species: present in the dictionary of networks but neither the main species nor listed in keys_other
                # (a sparse interaction graph) - it must not enter the residual
                nets["s0"] = make_pinn([[dict(c=3, e=[0]), dict(c=2, e=[1])]], "ODE")
            ud = {k: nets[k] for k in sorted(nets)}            # dict order independent of the roles
            own = {"growth_rate": jnp.array(qf(par["growth"])), "carrying_capacity": jnp.array(qf(par["carry"])),
                   "interactions": jnp.array([qf(v) for v in par["inter"]])}
            if lay.startswith("flat"):
                ep = own
            else:
                d1, d2 = rec["distract"]
                ep = {names[0]: own,
                      names[1]: {"growth_rate": jnp.array(float(d1)), "carrying_capacity": jnp.array(float(d2)), "interactions": jnp.array([1.0, 5.0, 9.0])},
                      names[2]: {"growth_rate": jnp.array(float(d2)), "carrying_capacity": jnp.array(float(d1)), "interactions": jnp.array([7.0, 3.0, 1.0])}}
            pd = jinns.parameters.ParamsDict(nn_params={k: v.init_params() for k, v in ud.items()}, eq_params=ep)
            dl = GeneralizedLotkaVolterra(Tmax=T, key_main=names[0], keys_other=names[1:])
            vals = jax.vmap(lambda q: jnp.ravel(dl.evaluate(q, ud, pd)))(pts)
        out["obs"] = [fracs(v) for v in np.asarray(vals)]
        out["exc"] = ""
    except Exception as ex:  # noqa
        out["obs"] = []
        out["exc"] = f"{type(ex).__name__}: {str(ex)[:200]}"
    return out


RUNNERS["equation"] = run_equation


# ---------------------------------------------------------------------------------- C10 wrappers
def _set_linear_ints(params, layers_vals):
    """overwrite, in leaf order (weight, bias per Linear layer), the array leaves of a partitioned MLP"""
    import jax
    import jax.numpy as jnp

    leaves, treedef = jax.tree_util.tree_flatten(params)
    vals = []
    for L in layers_vals:
        vals += [jnp.asarray(np.array(L["W"], dtype=np.float64)), jnp.asarray(np.array(L["b"], dtype=np.float64))]
    if len(vals) != len(leaves) or any(tuple(v.shape) != tuple(l.shape) for v, l in zip(vals, leaves)):
        raise RuntimeError(f"unexpected parameter structure: {[l.shape for l in leaves]} vs {[v.shape for v in vals]}")
    return jax.tree_util.tree_unflatten(treedef, vals)


def run_net(rec):
    import equinox as eqx
    import jax
    import jax.numpy as jnp
    import jinns

    out = dict(rec)
    acts = {"id": (lambda z: z), "sq": jnp.square}
    try:
        if rec["wrapper"] in ("pinn", "hyper"):
            nin, nout = rec["nin"], rec["nout"]
            if rec["depth"] == 1:
                eqx_list = ((eqx.nn.Linear, nin, nout),)
            else:
                eqx_list = ((eqx.nn.Linear, nin, 2), (acts[rec["act"]],), (eqx.nn.Linear, 2, nout))
            it = (lambda i, p: i + p.eq_params["k1"]) if rec["it"] == "shift" else None
            ot = (lambda i, o, p: o * p.eq_params["k2"] + i[0] + jnp.sum(o)) if rec["ot"] == "scale" else None
            shared = None
            if rec["shared"] == "lastint":
                shared = (jnp.s_[0:nout - 1], jnp.s_[-1])            # the last output designated by a plain (negative) integer
            elif rec["shared"] == "firstint":
                shared = (jnp.s_[0], jnp.s_[1:nout])
            elif rec["shared"] != "none":
                shared = (jnp.s_[0:1], jnp.s_[1:nout])
            dim_x = 0 if rec["eq_type"] == "ODE" else rec["struct"]["dimx"]
            eqp = {"k1": jnp.array(float(rec["th"][0])), "k2": jnp.array(float(rec["th"][1]))}
            if rec["wrapper"] == "pinn":
                # the solution slice given as a plain integer / omitted: the factory must normalise it to a slice that keeps the
                # component axis (k -> k:k+1, None -> 0:nout); the wrapper's own value does not depend on it
                ss = (nout - 1) if rec["depth"] == 2 else None
                u = jinns.utils.create_PINN(jax.random.PRNGKey(0), eqx_list, rec["eq_type"], dim_x, input_transform=it, output_transform=ot,
                                            shared_pinn_outputs=shared, slice_solution=ss)
                if shared is not None:
                    u = u[0] if rec["shared"] in ("first", "firstint") else u[1]
                want = slice(ss, ss + 1, None) if ss is not None else slice(0, nout, None)
                if u.slice_solution != want:
                    raise RuntimeError(f"SliceSolutionNotNormalised: create_PINN(slice_solution={ss}) stores {u.slice_solution}, expected {want}")
                nn = _set_linear_ints(u.init_params(), rec["layers"])
            else:
                # the designated parameters are consumed in the order of the hyperparams LIST (rec.hth follows that order),
                # whatever the order of the keys in the eq_params dictionary
                hp = ["k3", "k4"] if rec.get("hporder", "k3k4") == "k3k4" else ["k4", "k3"]
                vals = {hp[0]: jnp.array(float(rec["hth"][0])), hp[1]: jnp.array(float(rec["hth"][1]))}
                eqp.update({k: vals[k] for k in sorted(vals)})      # dictionary order k3, k4 - independent of the list order
                # the hyper-network's layers; the output size written for its LAST layer is a dummy: create_HYPERPINN computes it
                hl = tuple((eqx.nn.Linear, len(L["W"][0]), (len(L["W"]) if k < len(rec["hyper"]) - 1 else 1000)) for k, L in enumerate(rec["hyper"]))
                u = jinns.utils.create_HYPERPINN(jax.random.PRNGKey(0), eqx_list, rec["eq_type"], hp, 2, dim_x, input_transform=it,
                                                 output_transform=ot, shared_pinn_outputs=shared, eqx_list_hyper=hl)
                if shared is not None:
                    u = u[0] if rec["shared"] in ("first", "firstint") else u[1]
                nn = _set_linear_ints(u.init_params(), rec["hyper"])
            full = jinns.parameters.Params(nn_params=nn, eq_params=eqp)
            p = nn if rec["pform"] == "bare" else full
            obs, shapes = [], []
            for row in rec["ins"]:
                a = jnp.asarray(np.array(row, dtype=np.float64))
                if rec["eq_type"] == "ODE":
                    t = a[0] if rec["tform"] == "scalar" else a[:1]
                    v = u(t, p)
                elif rec["eq_type"] == "statio_PDE":
                    v = u(a, p)
                else:
                    v = u(a[:1], a[1:], p)
                shapes.append(list(np.asarray(v).shape))
                obs.append(fracs(v))
            out.update(obs=obs, oshapes=shapes, exc="")
        else:
            d, R, M, b = rec["d"], rec["R"], rec["M"], rec["b"]
            if rec["depth"] == 1:
                eqx_list = ((eqx.nn.Linear, 1, R * M),)
            else:
                eqx_list = ((eqx.nn.Linear, 1, 2), (acts[rec["act"]],), (eqx.nn.Linear, 2, R * M))
            u = jinns.utils.create_SPINN(jax.random.PRNGKey(0), d, R, eqx_list, rec["eq_type"], M)
            params = u.init_params()
            new_mlps = []
            for dd in range(d):
                vals = iter(rec["mlps"][dd])
                layer_list = []
                for layer in params.separated_mlp[dd]:
                    if hasattr(layer, "weight") and layer is not None and getattr(layer, "weight", None) is not None:
                        L = next(vals)
                        layer = eqx.tree_at(lambda l: (l.weight, l.bias), layer,
                                            (jnp.asarray(np.array(L["W"], dtype=np.float64)), jnp.asarray(np.array(L["b"], dtype=np.float64))))
                    layer_list.append(layer)
                new_mlps.append(layer_list)
            params = eqx.tree_at(lambda q: q.separated_mlp, params, new_mlps)
            full = jinns.parameters.Params(nn_params=params, eq_params={})
            p = params if rec["pform"] == "bare" else full
            X = jnp.asarray(np.array(rec["xs"], dtype=np.float64).T)      # (b, d)
            if rec["eq_type"] == "statio_PDE":
                v = u(X, p)
            else:
                v = u(X[:, :1], X[:, 1:], p)
            v = np.asarray(v)
            out.update(obs=[fracs(row) for row in v.reshape(-1, v.shape[-1])] if v.ndim == d + 1 else [], oshapes=[list(v.shape)], exc="")
    except Exception as ex:  # noqa
        out.update(obs=[], oshapes=[], exc=f"{type(ex).__name__}: {str(ex)[:200]}")
    return out


RUNNERS["net"] = run_net


# ---------------------------------------------------------------------------------- C11 forward vs reverse
def make_poly_spinn(coef, d, R, M, eq_type):
    import equinox as eqx
    import jax
    import jax.numpy as jnp
    import jinns

    tables = iter([jnp.asarray(np.array(c, dtype=np.float64)) for c in coef])

    class PolyFeat(eqx.Module):
        """1 -> R*M polynomial feature map: f_j(x) = sum_p C[j, p] x^p"""
        C: jax.Array

        def __init__(self, in_size, out_size, key=None):
            self.C = next(tables)

        def __call__(self, x):
            pows = jnp.stack([x[0] ** p if p else jnp.ones(()) for p in range(self.C.shape[1])])
            return self.C @ pows

    return jinns.utils.create_SPINN(jax.random.PRNGKey(0), d, R, ((PolyFeat, 1, R * M),), eq_type, M)


def run_fwdrev(rec):
    import jax
    import jax.numpy as jnp
    import jinns
    from jinns.loss import BurgerEquation, FisherKPP, MassConservation2DStatio
    from jinns.loss import _operators as ops

    out = dict(rec)
    qf = lambda q: q["n"] / q["d"]
    try:
        d, R, M, withT, op = rec["d"], rec["R"], rec["M"], rec["withT"], rec["op"]
        eq_type = "nonstatio_PDE" if withT else "statio_PDE"
        sp = make_poly_spinn(rec["coef"], d, R, M, eq_type)
        pi = make_pinn(rec["twin"], eq_type)
        ep = {k: jnp.array(qf(v)) for k, v in rec["par"].items() if isinstance(v, dict)}
        psp = jinns.parameters.Params(nn_params=sp.init_params(), eq_params=ep)
        ppi = jinns.parameters.Params(nn_params=pi.init_params(), eq_params=ep)
        X = jnp.asarray(np.array(rec["xs"], dtype=np.float64).T)           # (b, d)
        t, x = (X[:, :1], X[:, 1:]) if withT else (None, X)
        grid_pts = np.array([[rec["xs"][dd][i - 1] for dd, i in enumerate(idx)] for idx in rec["idxs"]], dtype=np.float64)

        def point(f):                                                     # reverse mode, point by point
            def g(p):
                return jnp.ravel(f(p[:1], p[1:]) if withT else f(None, p))
            return np.asarray(jax.vmap(g)(jnp.asarray(grid_pts)))

        nidx = len(rec["idxs"])
        if op == "lap":
            fwd = np.asarray(ops._laplacian_fwd(t, x, sp, psp)).reshape(nidx, 1)
            rev = point(lambda tt, xx: ops._laplacian_rev(tt, xx, pi, ppi))
        elif op == "div":
            fwd = np.asarray(ops._div_fwd(t, x, sp, psp)).reshape(nidx, 1)
            rev = point(lambda tt, xx: ops._div_rev(tt, xx, pi, ppi))
        elif op == "veclap":
            v = np.asarray(ops._vectorial_laplacian(t, x, sp, psp, u_vec_ndim=M))      # (M, b, .., b)
            fwd = np.moveaxis(v, 0, -1).reshape(nidx, M)
            rev = point(lambda tt, xx: ops._vectorial_laplacian(tt, xx, pi, ppi, u_vec_ndim=M))
        elif op == "veclapdef":                # u_vec_ndim left to its default (the dimension of x)
            v = np.asarray(ops._vectorial_laplacian(t, x, sp, psp))
            fwd = np.moveaxis(v, 0, -1).reshape(nidx, -1)
            rev = point(lambda tt, xx: ops._vectorial_laplacian(tt, xx, pi, ppi))
        elif op == "adv":
            fwd = np.asarray(ops._u_dot_nabla_times_u_fwd(t, x, sp, psp)).reshape(nidx, 2)
            rev = point(lambda tt, xx: ops._u_dot_nabla_times_u_rev(tt, xx, pi, ppi))
        elif op == "masscons":
            dl = MassConservation2DStatio(Tmax=1, nn_key="u")
            pds = jinns.parameters.ParamsDict(nn_params={"u": sp.init_params()}, eq_params={})
            pdp = jinns.parameters.ParamsDict(nn_params={"u": pi.init_params()}, eq_params={})
            fwd = np.asarray(dl.evaluate(x, {"u": sp}, pds)).reshape(nidx, 1)
            rev = np.asarray(jax.vmap(lambda p: jnp.ravel(dl.evaluate(p, {"u": pi}, pdp)))(jnp.asarray(grid_pts)))
        elif op == "ns":
            from jinns.loss import NavierStokes2DStatio
            spp = make_poly_spinn(rec["coefP"], d, R, 1, eq_type)
            pip = make_pinn(rec["twinP"], eq_type)
            dl = NavierStokes2DStatio(Tmax=1, u_key="u", p_key="p")
            pds = jinns.parameters.ParamsDict(nn_params={"u": sp.init_params(), "p": spp.init_params()}, eq_params=ep)
            pdp = jinns.parameters.ParamsDict(nn_params={"u": pi.init_params(), "p": pip.init_params()}, eq_params=ep)
            fwd = np.asarray(dl.evaluate(x, {"u": sp, "p": spp}, pds)).reshape(nidx, 2)
            rev = np.asarray(jax.vmap(lambda q: jnp.ravel(dl.evaluate(q, {"u": pi, "p": pip}, pdp)))(jnp.asarray(grid_pts)))
        elif op == "ou":
            from jinns.loss import OU_FPENonStatioLoss2D
            dl = OU_FPENonStatioLoss2D(Tmax=float(rec["Tmax"]))
            epv = {k: jnp.array([qf(v) for v in rec["par"][k]]) for k in ("alpha", "mu", "sigma")}
            psp = jinns.parameters.Params(nn_params=sp.init_params(), eq_params=epv)
            ppi = jinns.parameters.Params(nn_params=pi.init_params(), eq_params=epv)
            fwd = np.asarray(dl.evaluate(t, x, sp, psp)).reshape(nidx, 1)
            rev = np.asarray(jax.vmap(lambda p: jnp.ravel(dl.evaluate(p[:1], p[1:], pi, ppi)))(jnp.asarray(grid_pts)))
        else:
            dl = (BurgerEquation if op == "burgers" else FisherKPP)(Tmax=float(rec["Tmax"]))
            fwd = np.asarray(dl.evaluate(t, x, sp, psp)).reshape(nidx, 1)
            rev = np.asarray(jax.vmap(lambda p: jnp.ravel(dl.evaluate(p[:1], p[1:], pi, ppi)))(jnp.asarray(grid_pts)))
        out.update(fwd=[fracs(v) for v in fwd], rev=[fracs(v) for v in rev], exc="")
    except Exception as ex:  # noqa
        out.update(fwd=[], rev=[], exc=f"{type(ex).__name__}: {str(ex)[:200]}")
    return out


RUNNERS["fwdrev"] = run_fwdrev


# ---------------------------------------------------------------------------------- C06 on system losses
SYS_TERMS = dict(sysode=["initial_condition", "observations"], syspde=["initial_condition", "boundary_loss", "observations"])


def run_sysgradbatch(task):
    """per-unknown derivative keys of SystemLossODE / SystemLossPDE: pairs (unknown, term) x groups (nn of that unknown, k1, k2)"""
    import jax
    import jax.numpy as jnp
    import jinns
    from jinns.parameters import DerivativeKeysODE, DerivativeKeysPDENonStatio, Params

    from . import lossrec

    lk = task["lkind"]
    terms = SYS_TERMS[lk]
    names = ["ua", "ub"]
    DK = DerivativeKeysODE if lk == "sysode" else DerivativeKeysPDENonStatio
    allf = ["dyn_loss", "initial_condition", "observations"] + ([] if lk == "sysode" else ["norm_loss", "boundary_loss"])
    for attempt in range(25):
        st = dict(family="C13", lkind="ode" if lk == "sysode" else "nonstatio", neq=2, nunk=2, naming="same", wform="scalar", icpat="all",
                  obspat="all", bnd=(lk == "syspde"), pbatch=False, attempt=attempt)
        rec = lossrec.expand(st, task.get("seed", 0))
        rec["ot"] = "affine"
        if lk == "syspde":      # every unknown gets a boundary condition
            for k, n in enumerate(rec["nets"]):
                for b in n["bnd"]:
                    b["kind"] = "dirichlet"      # (a Neumann term does not depend on the additive parameter k2)

        def mk_mask(m):
            return Params(nn_params=m[0], eq_params={"k1": m[1], "k2": m[2]})

        def dkd(masks):           # masks[u][t] -> [nn, k1, k2]
            return {n: DK(**{f: (mk_mask(masks[u][terms.index(f)]) if f in terms else mk_mask([True, True, True])) for f in allf})
                    for u, n in enumerate(names)}

        full = [[[True] * 3 for _ in terms] for _ in names]

        def flat(g):
            return [np.asarray(g.nn_params["ua"].C).ravel(), np.asarray(g.nn_params["ub"].C).ravel(),
                    np.asarray(g.eq_params["k1"]).ravel(), np.asarray(g.eq_params["k2"]).ravel()]

        loss_all, pd, batch = build_sysloss(rec, dk_dict=dkd(full), onehot="*")
        ref_vals = loss_all.evaluate(pd, batch)[1]
        tnames = ["dyn_loss"] + terms
        # reference gradient of the DYNAMIC term measured with every group selected (the keys of the dynamic term of a system are not a
        # constructor argument: they are the library's default, "network parameters only" - which the expected selection below encodes)
        import equinox as eqx
        from jinns.parameters import ParamsDict
        full_dyn = eqx.tree_at(lambda l: l.derivative_keys_dyn_loss.dyn_loss, loss_all,
                               ParamsDict(nn_params=True, eq_params={"k1": True, "k2": True}))
        G = [[fracs(v) for v in flat(jax.grad(lambda p: full_dyn.evaluate(p, batch)[1]["dyn_loss"])(pd))]]
        for u, n in enumerate(names):
            l1, _, _ = build_sysloss(rec, dk_dict=dkd(full), onehot=n)
            for t in terms:
                G.append([fracs(v) for v in flat(jax.grad(lambda p: l1.evaluate(p, batch)[1][t])(pd))])
        # non-vacuity: each (unknown, term) pair must have a non-zero gradient w.r.t. its own network and k1, k2
        ok = True
        for u in range(2):
            for ti in range(len(terms)):
                row = G[1 + u * len(terms) + ti]
                for grp in (row[u], row[2], row[3]):
                    ok = ok and any(q["n"] != 0 for q in grp)
        if ok:
            break
    else:
        m0 = task["masks"][0]
        return dict(_many=[dict(kind="grad", lkind=lk, form="bool", G=G, ref=[frac(ref_vals[t]) for t in tnames], mask=[[True, True, True, True]],
                                obs=dict(total=dict(n=0, d=1, ok=True), terms=[], grad=[]), src=m0.get("src", "tlc"),
                                exc="SelectedPairGradientIsZero: with every (unknown, term, group) triple selected the gradient of a per-unknown term "
                                    "w.r.t. its own network or an equation parameter it depends on is exactly zero on 25 independently drawn problems")])
    ref = [frac(ref_vals[t]) for t in tnames]
    outs = []
    for m in task["masks"]:
        mk = m["mask"]            # pairs in the order (ua, t1), (ua, t2).., (ub, t1)..  each [nn, k1, k2]
        masks = [[mk[u * len(terms) + ti] for ti in range(len(terms))] for u in range(2)]
        out = dict(kind="grad", lkind=lk, form="bool", G=G, ref=ref, exc="", src=m.get("src", "tlc"))
        # selection per (pair, gradient group): the network bit of an unknown's term selects that unknown's network only
        sel = [[True, True, False, False]]        # dynamic term of a system: default keys = the networks only
        for u in range(2):
            for ti in range(len(terms)):
                b = masks[u][ti]
                sel.append([bool(b[0]) if u == 0 else True, bool(b[0]) if u == 1 else True, bool(b[1]), bool(b[2])])
        out["mask"] = sel
        try:
            l, _, _ = build_sysloss(rec, dk_dict=dkd(masks), onehot="*")
            (tot, tv), g = jax.value_and_grad(lambda p: l.evaluate(p, batch), has_aux=True)(pd)
            out["obs"] = dict(total=frac(tot), terms=[frac(tv[t]) for t in tnames], grad=[fracs(v) for v in flat(g)])
        except Exception as ex:  # noqa
            out["obs"] = dict(total=dict(n=0, d=1, ok=True), terms=[], grad=[])
            out["exc"] = f"{type(ex).__name__}: {str(ex)[:200]}"
        outs.append(out)
    return dict(_many=outs)


RUNNERS["sysgradbatch"] = run_sysgradbatch
