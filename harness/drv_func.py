"""Drivers of the functional checks: evaluate the REAL jinns code on one configuration record
emitted by TLC (or generated from VERIF_SEED) and attach the exact observed value(s)."""
from __future__ import annotations

import numpy as np

from .polynet import frac, fracs, make_pinn, polyeval


def _exc(rec, ex):
    rec = dict(rec)
    rec["obs"] = []
    rec["exc"] = f"{type(ex).__name__}: {str(ex)[:160]}"
    return rec


# ---------------------------------------------------------------------------------- C01
def run_operator(rec):
    import jax
    import jax.numpy as jnp
    import jinns
    from jinns.loss import _operators as ops

    dim, withT, op = rec["dim"], rec["withT"], rec["op"]
    u = make_pinn(rec["fields"], "nonstatio_PDE" if withT else "statio_PDE")
    params = jinns.parameters.Params(nn_params=u.init_params(), eq_params={"junk": jnp.array(float(rec["junk"]))})
    impl = rec.get("impl", "direct")

    def one(pt):
        t = pt[:1] if withT else None
        x = pt[1:] if withT else pt
        if op == "lap":
            return jnp.atleast_1d(ops._laplacian_rev(t, x, u, params))
        if op == "div":
            return jnp.atleast_1d(ops._div_rev(t, x, u, params))
        if op == "veclap":
            return jnp.ravel(ops._vectorial_laplacian(t, x, u, params))
        if op == "adv":
            return jnp.ravel(ops._u_dot_nabla_times_u_rev(t, x, u, params))
        raise ValueError(op)

    pts = jnp.asarray(np.array(rec["pts"], dtype=np.float64))
    try:
        vals = np.asarray(jax.vmap(one)(pts))
    except Exception as ex:  # noqa
        return _exc(rec, ex)
    out = dict(rec)
    out["obs"] = [fracs(v) for v in vals]
    out["exc"] = ""
    return out


# ---------------------------------------------------------------------------------- loss terms
NAMES = ["dyn_loss", "initial_condition", "norm_loss", "boundary_loss", "observations"]


def build_loss(rec):
    """loss record -> (jinns loss, params, batch) built through the public constructors"""
    import warnings

    import jax
    import jax.numpy as jnp
    import jinns
    from jinns.data._Batchs import ODEBatch, PDEStatioBatch, PDENonStatioBatch
    from jinns.data._DataGenerators import append_obs_batch, append_param_batch
    from jinns.loss import ODE, PDEStatio, PDENonStatio

    warnings.simplefilter("ignore")
    lkind, dim = rec["lkind"], rec["dim"]
    has_t = lkind != "statio"
    nin = dim + (1 if has_t else 0)
    eq_type = {"ode": "ODE", "statio": "statio_PDE", "nonstatio": "nonstatio_PDE"}[lkind]
    pkeys = [f"k{i + 1}" for i in range(len(rec["th"]))]
    ot = None
    if rec["ot"] == "affine":
        ot = lambda i, o, p: o * p.eq_params["k1"] + p.eq_params["k2"]
    lo, hi = rec["sol"]
    u = make_pinn(rec["V"], eq_type, output_transform=ot, slice_solution=jnp.s_[lo - 1:hi])
    params = jinns.parameters.Params(nn_params=u.init_params(), eq_params={k: jnp.array(float(v)) for k, v in zip(pkeys, rec["th"])})
    R = rec["R"]

    def resid(inputs, uval, p):
        th = [jnp.squeeze(p.eq_params[k]) for k in pkeys]
        z = [inputs[i] for i in range(nin)] + [uval[i] for i in range(len(rec["V"]))] + th
        return jnp.stack([polyeval(r, z) for r in R])

    dyn = None
    if R:
        if lkind == "ode":
            class Eq(ODE):
                def equation(self, t, u, p):
                    t = jnp.atleast_1d(t)
                    return resid(t, u(t, p), p)
        elif lkind == "statio":
            class Eq(PDEStatio):
                def equation(self, x, u, p):
                    return resid(x, u(x, p), p)
        else:
            class Eq(PDENonStatio):
                def equation(self, t, x, u, p):
                    return resid(jnp.concatenate([t, x]), u(t, x, p), p)
        dyn = Eq(Tmax=1)

    def wt(v):
        return float(v[0]) if len(v) == 1 else jnp.array([float(a) for a in v])

    w = rec["w"]
    kw = {}
    # boundary specification
    if rec["bnd"] and any(b["kind"] != "none" for b in rec["bnd"]):
        def mk_f(b):
            g = b["g"]
            scalar = rec["gret"] == "scalar" and len(g) == 1

            def val(inputs):
                z = [inputs[i] for i in range(nin)]
                v = jnp.stack([polyeval(gc, z) for gc in g])
                return v[0] if scalar else v
            if has_t:
                return lambda t, dx: val(jnp.concatenate([t, dx]))
            return lambda dx: val(dx)
        cname = lambda k: {"dirichlet": "dirichlet", "neumann": "von neumann", "none": None}[k]
        facets = ["xmin", "xmax", "ymin", "ymax"][: 2 * dim]
        if rec["bndform"] == "global":
            b0 = rec["bnd"][0]
            kw.update(omega_boundary_fun=mk_f(b0), omega_boundary_condition=cname(b0["kind"]),
                      omega_boundary_dim=jnp.s_[b0["comp"][0] - 1:b0["comp"][1]])
        else:
            kw.update(omega_boundary_fun={k: (mk_f(b) if b["kind"] != "none" else None) for k, b in zip(facets, rec["bnd"])},
                      omega_boundary_condition={k: cname(b["kind"]) for k, b in zip(facets, rec["bnd"])},
                      omega_boundary_dim={k: jnp.s_[b["comp"][0] - 1:b["comp"][1]] for k, b in zip(facets, rec["bnd"])})
    if rec["norm"]["on"]:
        kw.update(norm_samples=jnp.asarray(np.array(rec["norm"]["samples"], dtype=np.float64)), norm_int_length=float(rec["norm"]["L"]))
    osl = rec["obsd"]["slice"]
    if lkind == "ode":
        lw = jinns.loss.LossWeightsODE(dyn_loss=wt(w["dyn"]), initial_condition=wt(w["ic"]), observations=wt(w["obs"]))
        ic = (float(rec["ic"]["t0"]), jnp.array([float(v) for v in rec["ic"]["u0"]])) if rec["ic"]["on"] else None
        loss = jinns.loss.LossODE(u=u, dynamic_loss=dyn, initial_condition=ic, loss_weights=lw, obs_slice=jnp.s_[osl[0] - 1:osl[1]], params=params)
    elif lkind == "statio":
        lw = jinns.loss.LossWeightsPDEStatio(dyn_loss=wt(w["dyn"]), norm_loss=wt(w["norm"]), boundary_loss=wt(w["bnd"]), observations=wt(w["obs"]))
        loss = jinns.loss.LossPDEStatio(u=u, dynamic_loss=dyn, loss_weights=lw, obs_slice=jnp.s_[osl[0] - 1:osl[1]], params=params, **kw)
    else:
        lw = jinns.loss.LossWeightsPDENonStatio(dyn_loss=wt(w["dyn"]), norm_loss=wt(w["norm"]), boundary_loss=wt(w["bnd"]),
                                                observations=wt(w["obs"]), initial_condition=wt(w["ic"]))
        if rec["ic"]["on"]:
            u0 = rec["ic"]["u0"]
            kw.update(initial_condition_fun=lambda x: jnp.stack([polyeval(c, [x[i] for i in range(dim)]) for c in u0]))
        loss = jinns.loss.LossPDENonStatio(u=u, dynamic_loss=dyn, loss_weights=lw, obs_slice=jnp.s_[osl[0] - 1:osl[1]], params=params, **kw)
    # batch
    inside = np.array(rec["inside"], dtype=np.float64).reshape(len(rec["inside"]), nin)
    border = None
    if rec["border"]:
        nb = len(rec["border"][0])
        border = np.zeros((nb, nin, len(rec["border"])))
        for f, rows in enumerate(rec["border"]):
            border[:, :, f] = np.array(rows, dtype=np.float64).reshape(nb, nin)
        border = jnp.asarray(border)
    if lkind == "ode":
        batch = ODEBatch(temporal_batch=jnp.asarray(inside[:, 0]))
    elif lkind == "statio":
        batch = PDEStatioBatch(inside_batch=jnp.asarray(inside), border_batch=border)
    else:
        batch = PDENonStatioBatch(times_x_inside_batch=jnp.asarray(inside), times_x_border_batch=border)
    if any(len(c) for c in rec["ptab"]):
        batch = append_param_batch(batch, {k: jnp.asarray(np.array(c, dtype=np.float64))[:, None] for k, c in zip(pkeys, rec["ptab"]) if len(c)})
    if rec["obsd"]["on"]:
        o = rec["obsd"]
        batch = append_obs_batch(batch, {"pinn_in": jnp.asarray(np.array(o["in"], dtype=np.float64)),
                                         "val": jnp.asarray(np.array(o["val"], dtype=np.float64)),
                                         "eq_params": {k: jnp.asarray(np.array(c, dtype=np.float64))[:, None] for k, c in zip(pkeys, o["etab"]) if len(c)}})
    return loss, params, batch


def run_loss(rec):
    out = dict(rec)
    zero = dict(n=0, d=1, ok=True)
    try:
        loss, params, batch = build_loss(rec)
        total, terms = loss.evaluate(params, batch) if rec.get("call", "evaluate") == "evaluate" else loss(params, batch)
    except Exception as ex:  # noqa
        out["obs"] = dict(total=zero, **{k: zero for k in NAMES})
        out["exc"] = f"{type(ex).__name__}: {str(ex)[:200]}"
        return out
    obs = {k: (frac(terms[k]) if k in terms else zero) for k in NAMES}
    obs["total"] = frac(total)
    out["obs"] = obs
    out["exc"] = ""
    return out


RUNNERS = dict(operator=run_operator, loss=run_loss)


def run_case(rec):
    return RUNNERS[rec["kind"]](rec)
