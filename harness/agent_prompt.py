import json,sys
pid=sys.argv[1]
props={json.loads(l)["id"]:json.loads(l) for l in open("/verif/properties.jsonl")}
p=props[pid]
print(f"""You are helping test a verification effort by playing the adversary. You work ONLY inside the git worktree /tmp/wt/{pid} (a scratch checkout of the Python library mia-jinns/jinns, a JAX library for physics-informed neural networks). Do not read or touch /repo or /verif, and do not look anywhere outside /tmp/wt/{pid} and /tmp/wt_out/{pid} (except the Python environment /venv).

Property "{p['title']}":
{p['statement']}
(Quantified over: {p['quantifier']['text']})
Relevant files: {', '.join(p['anchors']['files'])}

Task: write ONE small, realistic change to the library source (under /tmp/wt/{pid}/jinns/) that BREAKS this property while the code still imports and the existing pinned test-suite still passes. It should look like a plausible bug or an innocent-looking refactoring slip (off-by-one, wrong axis, stale state, swapped arguments, wrong operand, a condition that is subtly wrong, two cooperating sites that each look fine alone), NOT sabotage (no random noise, no `if x == 42`). Avoid the single most obvious spot for this property: pick a less obvious place or a less common configuration (another generator kind, another loss kind, an option that is rarely used, an interaction between two features). Prefer a change that needs something SPECIFIC to manifest - a particular multi-step sequence of calls, a particular size relation (e.g. only when a batch size does not divide n, only after the second reshuffle, only in 2D, only with a particular option), an unusual but legal input - rather than one that ordinary use would expose at once.

How to run things:
 - Python: `cd /tmp/wt/{pid} && PYTHONPATH=/tmp/wt/{pid} /venv/bin/python -W ignore your_script.py` (this imports the worktree's jinns; check with `import jinns; print(jinns.__file__)`). CPU only, no network. Every shell call prints a harmless conda WARNING line; ignore it.
 - The pinned test-suite (must still pass with your change; takes about 4-5 minutes; run it at most twice):
   `cd /tmp/wt/{pid} && PYTHONPATH=/tmp/wt/{pid} /venv/bin/python -m pytest -q -p no:cacheprovider --timeout=900 --continue-on-collection-errors -x tests/dataGenerator_tests tests/parameters_tests tests/utils_tests tests/solver_tests/test_NSPipeFlow_x32_eqx.py tests/solver_tests/test_nan_params_catch.py tests/solver_tests/test_parameter_tracker.py tests/solver_tests/test_rar_algorithm.py tests/solver_tests_spinn/test_NSPipeFlow_x32_spinn_eqx.py`
   Note the final 'N passed' line and the exit code. (All tests selected there pass on the unmodified worktree, 51 tests. Other test files of the repository fail even unmodified; ignore them.)

Deliverables, written to /tmp/wt_out/{pid}/ (create it):
 1. patch.diff  - output of `git -C /tmp/wt/{pid} diff` (source change only, under jinns/).
 2. demo.py     - a small self-contained program using only the public API that exits 0 on the UNMODIFIED library and exits 1 (printing what went wrong) on the modified one. It must be deterministic. Verify both: run it with your change applied (exit 1); then save your change with `git -C /tmp/wt/{pid} diff > /tmp/wt_out/{pid}/patch.diff` and revert it with `git -C /tmp/wt/{pid} apply -R /tmp/wt_out/{pid}/patch.diff`, run the demo again (exit 0), then re-apply with `git -C /tmp/wt/{pid} apply /tmp/wt_out/{pid}/patch.diff`. NEVER use `git stash` (the stash is shared with other worktrees).
 3. notes.md    - 5-10 lines: what the change is, why it breaks the property, what specific conditions are needed for it to manifest, and the test-suite result you observed.
Leave the worktree with your change applied (uncommitted). Report briefly what you did.""")
